// C14 — io_uring_context over the ring simulator (kit/ksim_uring): remote scheduling vs the idle/wake-up protocol
// (POLL_ADD on the eventfd), run(stop_token), timers (TIMEOUT / TIMEOUT_REMOVE), file reads and writes at offsets,
// cancellation of a pending read (ASYNC_CANCEL, refCount_ join), a submission ring smaller than the number of
// concurrent operations (pendingIoQueue_), failed and short transfers, and release of descriptors and ring mappings.
#include <vmc_main.hpp>
#include <ksim.hpp>
#include <iokit.hpp>
#include <unifex/linux/io_uring_context.hpp>
#include <unifex/inplace_stop_token.hpp>
#include <unifex/scheduler_concepts.hpp>
#include <unifex/io_concepts.hpp>
#include <unifex/file_concepts.hpp>
#include <unifex/span.hpp>
#include <optional>
#include <fcntl.h>
using namespace unifex;
using namespace iokit;
using unifex::linuxos::io_uring_context;

namespace {
bool kernel_refs(const void* p, size_t n) { return ksim::uring_request_points_into(p, n); }
struct World {
  ksim::Config cfg;
  std::optional<io_uring_context> ctx;
  inplace_stop_source run_stop;
  std::optional<std::thread> io;
  int io_tid = -1;
  bool run_returned = false;
  explicit World(const ksim::Config& c = ksim::Config{}) : cfg(c) {
    if (!cfg.uring_sq_entries) cfg.uring_sq_entries = 4;
    ksim::reset(cfg);
    Ctl::stale = &kernel_refs;
    ctx.emplace();
  }
  void start_loop() { io.emplace([this] { io_tid = vmc::self(); ctx->run(run_stop.get_token()); run_returned = true; }); }
  void stop_and_join() {
    run_stop.request_stop();
    io->join();
    vmc::check(run_returned, "C14", "run-did-not-return", "run(stop_token) did not return after stop was requested");
  }
  void finish() {
    ctx.reset();
    std::string l = ksim::leaks();
    if (!l.empty()) vmcrt::fail("C14", "descriptor-leak", ("kernel resources not released exactly once: " + l).c_str());
  }
};
const char* kData = "abcdefghij";
struct StopRcv {
  inplace_stop_source* s; Ctl* c;
  void set_value() noexcept { s->request_stop(); c->signal('V', 0, 0); }
  void set_error(std::exception_ptr) noexcept {}
  void set_done() noexcept {}
};
int pipe_rfd() { for (int fd = ksim::BASE; fd < ksim::BASE + 48; ++fd) if (ksim::pipe_bytes(fd) >= 0) return fd; return -1; }
}  // namespace

// producer A (na items) || producer B (1 item) || run(); stop after all items ran
VMC_HARNESS(ur_sched, "C14,C06,C01") {
  int na = vmcrt::arg(0, 2);
  World w; Ctl c[3];
  w.start_loop();
  auto sched = w.ctx->get_scheduler();
  std::thread pb([&] { auto& op = heap_connect(c[2], schedule(sched), IoRcv<>{&c[2]}); unifex::start(op); });
  for (int i = 0; i < na; ++i) { auto& op = heap_connect(c[i], schedule(sched), IoRcv<>{&c[i]}); unifex::start(op); }
  pb.join();
  vmc::wait_until([&] { for (int i = 0; i < 3; ++i) if ((i < na || i == 2) && !c[i].d.count) return false; return true; });
  w.stop_and_join();
  for (int i = 0; i < 3; ++i) {
    if (!(i < na || i == 2)) continue;
    vmc::check(c[i].d.count == 1 && c[i].d.how == 'V', "C14,C06", "item-lost", "scheduled item did not run exactly once with value");
    vmc::check(c[i].d.thread == w.io_tid, "C14,C06", "wrong-thread", "item ran on a thread that is not inside run()");
  }
  w.finish();
  vmc::note("ok");
}

VMC_HARNESS(ur_stop, "C14,C06") {
  World w; Ctl c;
  w.start_loop();
  auto sched = w.ctx->get_scheduler();
  inplace_stop_source item_stop;
  std::thread p([&] { auto& op = heap_connect(c, schedule(sched), IoRcv<>{&c, item_stop.get_token()}); unifex::start(op); });
  std::thread s([&] { w.run_stop.request_stop(); });
  p.join(); s.join();
  w.io->join();
  vmc::check(w.run_returned, "C14", "run-did-not-return", "run(stop_token) did not return after stop was requested");
  if (c.d.count) vmc::check(c.d.thread == w.io_tid, "C14,C06", "wrong-thread", "item ran outside run()");
  vmc::note(c.d.count ? c.d.str() : "queued");
  if (!c.d.count) {
    inplace_stop_source again; bool ret = false;
    std::thread io2([&] { w.io_tid = vmc::self(); w.ctx->run(again.get_token()); ret = true; });
    vmc::wait_until([&] { return c.d.count > 0; });
    again.request_stop(); io2.join();
    vmc::check(c.d.count == 1 && c.d.how == 'V', "C14,C06", "item-lost", "item accepted before stop was lost");
  }
  w.finish();
}

// args: [cancel: 0 none, 1 remote thread at once, 2 stop requested before start, 3 remote thread at the due time, 4 from the I/O thread]
VMC_HARNESS(ur_timer, "C14,C07") {
  int cancel = vmcrt::arg(0, 1);
  World w; Ctl c, c2, ci;
  w.start_loop();
  auto sched = w.ctx->get_scheduler();
  inplace_stop_source ss;
  if (cancel == 2) ss.request_stop();
  auto due = sched.now() + std::chrono::milliseconds(10);
  long long t0 = vmcrt::now_ns();
  auto& op = heap_connect(c, schedule_at(sched, due), IoRcv<>{&c, ss.get_token()});
  auto& op2 = heap_connect(c2, schedule_at(sched, sched.now() + std::chrono::milliseconds(5)), IoRcv<unstoppable_token>{&c2});
  std::thread k([&] { if (cancel == 3) std::this_thread::sleep_for(std::chrono::milliseconds(10)); if (cancel == 1 || cancel == 3) ss.request_stop(); });
  unifex::start(op);
  unifex::start(op2);
  if (cancel == 4) { auto& sop = heap_connect(ci, schedule(sched), StopRcv{&ss, &ci}); unifex::start(sop); }
  k.join();
  vmc::wait_until([&] { return c.d.count && c2.d.count; });
  w.stop_and_join();
  vmc::check(c2.d.how == 'V' && c2.d.when - t0 >= 5000000, "C14,C07", "timer-early", "uncancelled timer completed before its due time or not with value");
  if (c.d.how == 'V') vmc::check(c.d.when - t0 >= 10000000, "C14,C07", "timer-early", "timer completed with value before its due time");
  if (cancel == 0) vmc::check(c.d.how == 'V', "C14,C07", "timer-lost", "uncancelled timer did not complete with value");
  if (cancel == 2) vmc::check(c.d.how == 'D', "C14,C07", "timer-not-cancelled", "timer started with stop already requested did not complete with done");
  vmc::check(c.d.thread == w.io_tid && c2.d.thread == w.io_tid, "C14", "wrong-thread", "timer completed outside run()");
  w.finish();
  vmc::note(c.d.str());
}

namespace {
// receiver of the cancellable timer in *_timer3: optionally starts a further timer from its completion
template <class Sched>
struct ChainRcvT {
  Ctl* c; Ctl* cx; Sched s; long long* chain_due; bool chain; inplace_stop_token tok;
  void go(char h) noexcept {
    if (chain) {
      *chain_due = vmcrt::now_ns() + 3000000;
      auto& nop = heap_connect(*cx, schedule_at(s, s.now() + std::chrono::milliseconds(3)), IoRcv<unstoppable_token>{cx});
      unifex::start(nop);
    }
    c->signal(h, 0, 0);
  }
  void set_value() noexcept { go('V'); }
  void set_error(std::exception_ptr) noexcept { go('E'); }
  void set_error(std::error_code) noexcept { go('E'); }
  void set_done() noexcept { go('D'); }
  friend inplace_stop_token tag_invoke(tag_t<get_stop_token>, const ChainRcvT& r) noexcept { return r.tok; }
};
}  // namespace

// ---- three timers (the context's timer list with an element inserted / removed at the head, in the middle, at the tail) --
// Due times from {+5ms, +10ms, +10ms (tie), +15ms} chosen per timer (data choice), all started remotely in index order;
// one of them (data choice) is cancelled by another thread — at once (arg0 = 0), exactly when the FIRST due time arrives
// (arg0 = 1: the cancellation races the expiry of its own or of a neighbouring timer) or at the victim's own due time
// (arg0 = 2).  arg1 = 1: the victim's receiver starts a further timer (+3ms) from its completion, like a periodic timer:
// a context that removes an element that is no longer linked loses or corrupts what was inserted meanwhile.
// Every operation is freed by its receiver, so a list that still links a completed timer is a use-after-free.
VMC_HARNESS(ur_timer3, "C14,C07,C01,C02") {
  static const long long kD[] = {5000000, 10000000, 10000000, 15000000};
  int when = vmcrt::arg(0, 0); bool chain = vmcrt::arg(1, 0) != 0;
  int d[3] = {vmc::choose(4), vmc::choose(4), vmc::choose(4)};
  int victim = vmc::choose(3);
  World w; Ctl c[3], cx;
  w.start_loop();
  auto sched = w.ctx->get_scheduler();
  inplace_stop_source ss, never;
  auto base = sched.now();
  long long t0 = vmcrt::now_ns();
  long long due[3], stop_at = -1, chain_due = -1;
  using ChainRcv = ChainRcvT<decltype(sched)>;
  long long first_due = -1;
  for (int i = 0; i < 3; ++i) { due[i] = t0 + kD[d[i]]; if (first_due < 0 || due[i] < first_due) first_due = due[i]; }
  bool all_started = false;
  std::thread k([&] {
    vmc::wait_until([&] { return all_started; });
    long long target = when == 0 ? 0 : when == 1 ? first_due : due[victim];
    if (target > vmcrt::now_ns()) std::this_thread::sleep_for(std::chrono::nanoseconds(target - vmcrt::now_ns()));
    stop_at = vmcrt::now_ns();
    ss.request_stop();
  });
  for (int i = 0; i < 3; ++i) {
    auto at = base + std::chrono::nanoseconds(kD[d[i]]);
    if (i == victim) { auto& op = heap_connect(c[i], schedule_at(sched, at), ChainRcv{&c[i], &cx, sched, &chain_due, chain, ss.get_token()}); unifex::start(op); }
    else { auto& op = heap_connect(c[i], schedule_at(sched, at), IoRcv<>{&c[i], never.get_token()}); unifex::start(op); }
  }
  all_started = true;
  k.join();
  vmc::wait_until([&] { return c[0].d.count && c[1].d.count && c[2].d.count && (!chain || cx.d.count); });
  w.stop_and_join();
  for (int i = 0; i < 3; ++i) {
    vmc::check(c[i].d.count == 1, "C14,C07,C01", "timer-lost", "timer operation did not complete exactly once");
    if (c[i].d.how == 'V') vmc::check(c[i].d.when >= due[i], "C14,C07", "timer-early", "timer completed with value before its due time");
    if (i != victim) vmc::check(c[i].d.how == 'V', "C14,C07,C01", "timer-lost", "a timer that was not cancelled did not complete with value");
    vmc::check(c[i].d.thread == w.io_tid, "C14", "wrong-thread", "timer completed outside run()");
  }
  if (c[victim].d.how == 'D') vmc::check(c[victim].d.when < due[victim] || stop_at >= due[victim] - 1, "C14,C07", "cancel-not-prompt", "stopped timer completed with done only when its due time arrived");
  if (chain) {
    vmc::check(cx.d.count == 1 && cx.d.how == 'V', "C14,C07,C01", "timer-lost", "the timer started from the victim's completion did not complete with value");
    vmc::check(cx.d.when >= chain_due, "C14,C07", "timer-early", "chained timer completed before its due time");
  }
  // due-time order among the uncancelled ones (ties in submission order; all were queued long before any was due)
  for (int a = 0; a < 3; ++a) for (int b = 0; b < 3; ++b) {
    if (a == b || a == victim || b == victim) continue;
    if (due[a] < due[b] || (due[a] == due[b] && a < b)) vmc::check(c[a].d.when <= c[b].d.when, "C14,C07", "due-order", "timers did not complete in due-time order");
  }
  w.finish();
  vmc::note(std::string(1, c[0].d.how) + c[1].d.how + c[2].d.how + (chain ? cx.d.str() : ""));
}

// file data path: write wlen bytes at offset 2 of a 6-byte file, then read rlen bytes from offset 1; both remote.
// args: [wlen, rlen, short(0,1 readv,2 writev)]
VMC_HARNESS(ur_file, "C14") {
  int wlen = vmcrt::arg(0, 3), rlen = vmcrt::arg(1, 4), sh = vmcrt::arg(2, 0);
  ksim::Config cfg;
  if (sh == 1) { cfg.short_call = ksim::C_READV; cfg.short_nth = 0; }
  if (sh == 2) { cfg.short_call = ksim::C_WRITEV; cfg.short_nth = 0; }
  World w(cfg); Ctl cr, cw;
  w.start_loop();
  int fd = ksim::k_open_file("ABCDEF", 6);
  {
    io_uring_context::async_read_write_file file{*w.ctx, fd};
    cw.buf.reset(new std::byte[wlen]); cw.buf_size = wlen; std::memcpy(cw.buf.get(), kData, wlen);
    auto& wop = heap_connect(cw, async_write_some_at(file, 2, span<const std::byte>(cw.buf.get(), wlen)), IoRcv<unstoppable_token>{&cw});
    std::thread tw([&] { unifex::start(wop); });
    tw.join();
    vmc::wait_until([&] { return cw.d.count > 0; });
    vmc::check(cw.d.how == 'V' && cw.d.n >= 1 && cw.d.n <= wlen && (sh != 2 || cw.d.n == 1), "C14", "write-result", ("file write completed with " + cw.d.str()).c_str());
    std::string expect = "ABCDEF"; if (expect.size() < 2 + (size_t)cw.d.n) expect.resize(2 + cw.d.n); std::memcpy(&expect[2], kData, cw.d.n);
    vmc::check(ksim::file_contents(fd) == expect, "C14", "data-corrupt", ("file contents after the write are '" + ksim::file_contents(fd) + "', expected '" + expect + "'").c_str());
    cr.buf.reset(new std::byte[rlen]); cr.buf_size = rlen;
    auto& rop = heap_connect(cr, async_read_some_at(file, 1, span<std::byte>(cr.buf.get(), rlen)), IoRcv<unstoppable_token>{&cr});
    unifex::start(rop);
    vmc::wait_until([&] { return cr.d.count > 0; });
    long maxn = std::min<long>(rlen, (long)expect.size() - 1);
    vmc::check(cr.d.how == 'V' && cr.d.n >= 1 && cr.d.n <= maxn && (sh == 1 ? cr.d.n == 1 : cr.d.n == maxn), "C14", "read-result", ("file read completed with " + cr.d.str()).c_str());
    vmc::check(std::memcmp(cr.got.data(), expect.data() + 1, cr.d.n) == 0, "C14", "data-corrupt", "bytes read differ from the file contents at that offset");
    vmc::check(cr.d.thread == w.io_tid && cw.d.thread == w.io_tid, "C14", "wrong-thread", "I/O completed outside run()");
    w.stop_and_join();
  }
  w.finish();
  vmc::note(cw.d.str() + "/" + cr.d.str());
}

// a read on a pipe descriptor stays pending in the ring; it is cancelled while the other side may write.
// args: [when: 0 remote stop, 1 stop before start, 2 stop from the I/O thread][bytes the other side writes]
VMC_HARNESS(ur_cancel, "C14,C19,C02") {
  int mode = vmcrt::arg(0, 0), nbytes = vmcrt::arg(1, 2);
  ksim::Config cfg; cfg.pipe_capacity = 4;
  World w(cfg); Ctl cr, cr2, ci;
  w.start_loop();
  auto sched = w.ctx->get_scheduler();
  int p[2]; ksim::k_pipe2(p, 0);
  {
    io_uring_context::async_read_only_file reader{*w.ctx, p[0]};
    inplace_stop_source ss;
    if (mode == 1) ss.request_stop();
    cr.buf.reset(new std::byte[4]); cr.buf_size = 4;
    auto& rop = heap_connect(cr, async_read_some_at(reader, 0, span<std::byte>(cr.buf.get(), 4)), IoRcv<>{&cr, ss.get_token()});
    std::thread ext([&] { if (nbytes) ksim::k_write(p[1], kData, nbytes); });
    std::thread stopper([&] { if (mode == 0) ss.request_stop(); });
    unifex::start(rop);
    stopper.join();
    if (mode == 2) { auto& sop = heap_connect(ci, schedule(sched), StopRcv{&ss, &ci}); unifex::start(sop); }
    ext.join();
    vmc::wait_until([&] { return cr.d.count > 0; });
    vmc::check(cr.d.how == 'V' || cr.d.how == 'D', "C14", "read-result", ("cancelled read completed with " + cr.d.str()).c_str());
    int left = ksim::pipe_bytes(p[0]);
    if (cr.d.how == 'V') {
      vmc::check(cr.d.n >= 1 && cr.d.n <= nbytes && left == nbytes - cr.d.n, "C14", "read-result", ("read completed with " + cr.d.str()).c_str());
      vmc::check(std::memcmp(cr.got.data(), kData, cr.d.n) == 0, "C14", "data-corrupt", "bytes read differ from the bytes written");
    }
    // (a read that reports done may still have consumed bytes: io_uring delivers the data and the library reports the
    //  stop request; what must hold is that nothing is delivered twice or into freed memory)
    vmc::check(cr.d.thread == w.io_tid, "C14", "wrong-thread", "read completed outside run()");
    int before = left;
    cr2.buf.reset(new std::byte[4]); cr2.buf_size = 4;
    auto& rop2 = heap_connect(cr2, async_read_some_at(reader, 0, span<std::byte>(cr2.buf.get(), 4)), IoRcv<unstoppable_token>{&cr2});
    unifex::start(rop2);
    if (before == 0) ksim::k_write(p[1], kData + 5, 2);
    vmc::wait_until([&] { return cr2.d.count > 0; });
    vmc::check(cr2.d.how == 'V' && cr2.d.n >= 1, "C14", "later-read-affected", ("the read after a cancelled read completed with " + cr2.d.str()).c_str());
    const char* expect = before == 0 ? kData + 5 : kData + (nbytes - before);
    vmc::check(std::memcmp(cr2.got.data(), expect, cr2.d.n) == 0, "C14", "data-corrupt", "bytes of the later read are not the next bytes of the pipe");
    w.stop_and_join();
  }
  ksim::k_close(p[1]);
  w.finish();
  vmc::note(cr.d.str() + ">" + cr2.d.str());
}

// more concurrent operations than the submission ring holds: k pending pipe reads on a ring of 2 entries, then all are
// cancelled (or fed).  args: [k reads][feed: 0 cancel all, 1 write data for all]
static void full_body(int k, int feed);
VMC_HARNESS(ur_full, "C14,C19") { full_body(std::min(vmcrt::arg(0, 3), 3), vmcrt::arg(1, 0)); }
// as many reads in flight as the completion queue has entries (4), then all are cancelled: the cancellations cannot be
// submitted (the context reserves no completion budget for them) and nothing ever completes
VMC_HARNESS(ur_cq_budget, "C14,C19") { full_body(4, 0); }
// ... while feeding data instead of cancelling works (each completion frees budget for the next submission)
VMC_HARNESS(ur_cq_budget_feed, "C14") { full_body(vmcrt::arg(0, 5), 1); }
static void full_body(int k, int feed) {
  ksim::Config cfg; cfg.pipe_capacity = 4; cfg.uring_sq_entries = 2;
  World w(cfg); Ctl c[5];
  w.start_loop();
  int p[5][2];
  for (int i = 0; i < k; ++i) ksim::k_pipe2(p[i], 0);
  {
    std::optional<io_uring_context::async_read_only_file> f[5];
    inplace_stop_source ss;
    for (int i = 0; i < k; ++i) {
      f[i].emplace(*w.ctx, p[i][0]);
      c[i].buf.reset(new std::byte[2]); c[i].buf_size = 2;
      auto& op = heap_connect(c[i], async_read_some_at(*f[i], 0, span<std::byte>(c[i].buf.get(), 2)), IoRcv<>{&c[i], ss.get_token()});
      unifex::start(op);
    }
    std::thread other([&] {
      if (feed) for (int i = 0; i < k; ++i) ksim::k_write(p[i][1], kData + i, 1);
      else ss.request_stop();
    });
    other.join();
    vmc::wait_until([&] { for (int i = 0; i < k; ++i) if (!c[i].d.count) return false; return true; });
    for (int i = 0; i < k; ++i) {
      if (feed) vmc::check(c[i].d.how == 'V' && c[i].d.n == 1 && c[i].got[0] == (unsigned char)kData[i], "C14", "read-result", ("read " + std::to_string(i) + " completed with " + c[i].d.str()).c_str());
      else vmc::check(c[i].d.how == 'D', "C14", "read-result", ("cancelled read " + std::to_string(i) + " completed with " + c[i].d.str()).c_str());
    }
    w.stop_and_join();
  }
  for (int i = 0; i < k; ++i) ksim::k_close(p[i][1]);
  w.finish();
  vmc::note("ok");
}

// failed transfers.  args: [op: 0 read 1 write][errno]
VMC_HARNESS(ur_fault, "C14") {
  int which = vmcrt::arg(0, 0), err = vmcrt::arg(1, EIO);
  ksim::Config cfg; cfg.fault_call = which == 0 ? ksim::C_READV : ksim::C_WRITEV; cfg.fault_nth = 0; cfg.fault_errno = err;
  World w(cfg); Ctl c;
  w.start_loop();
  int fd = ksim::k_open_file("ABCDEF", 6);
  {
    io_uring_context::async_read_write_file file{*w.ctx, fd};
    c.buf.reset(new std::byte[2]); c.buf_size = 2; std::memcpy(c.buf.get(), kData, 2);
    if (which == 0) { auto& op = heap_connect(c, async_read_some_at(file, 0, span<std::byte>(c.buf.get(), 2)), IoRcv<unstoppable_token>{&c}); unifex::start(op); }
    else { auto& op = heap_connect(c, async_write_some_at(file, 0, span<const std::byte>(c.buf.get(), 2)), IoRcv<unstoppable_token>{&c}); unifex::start(op); }
    vmc::wait_until([&] { return c.d.count > 0; });
    vmc::check(c.d.how == 'E' && c.d.ec == err, "C14", "wrong-error-code", ("the operation failed with errno " + std::to_string(err) + " but completed with " + c.d.str()).c_str());
    vmc::check(ksim::file_contents(fd) == "ABCDEF", "C14", "data-corrupt", "a failed transfer changed the file");
    w.stop_and_join();
  }
  w.finish();
  vmc::note(c.d.str());
}

// a pending write (pipe full) cancelled while the other side drains.  args: [when: 0 remote, 1 before start, 2 I/O thread]
VMC_HARNESS(ur_cancel_w, "C14,C19,C02") {
  int mode = vmcrt::arg(0, 0);
  ksim::Config cfg; cfg.pipe_capacity = 2;
  World w(cfg); Ctl cw, cw2, ci;
  w.start_loop();
  auto sched = w.ctx->get_scheduler();
  int p[2]; ksim::k_pipe2(p, 0);
  ksim::k_write(p[1], "XY", 2);
  {
    io_uring_context::async_write_only_file writer{*w.ctx, p[1]};
    inplace_stop_source ss;
    if (mode == 1) ss.request_stop();
    cw.buf.reset(new std::byte[2]); cw.buf_size = 2; std::memcpy(cw.buf.get(), kData, 2);
    auto& wop = heap_connect(cw, async_write_some_at(writer, 0, span<const std::byte>(cw.buf.get(), 2)), IoRcv<>{&cw, ss.get_token()});
    char drained[2] = {0, 0};
    std::thread ext([&] { ksim::k_read(p[0], drained, 2); });
    std::thread stopper([&] { if (mode == 0) ss.request_stop(); });
    unifex::start(wop);
    stopper.join();
    if (mode == 2) { auto& sop = heap_connect(ci, schedule(sched), StopRcv{&ss, &ci}); unifex::start(sop); }
    ext.join();
    vmc::wait_until([&] { return cw.d.count > 0; });
    vmc::check(drained[0] == 'X' && drained[1] == 'Y', "C14", "data-corrupt", "the bytes drained are not the bytes that were in the pipe");
    int in_pipe = ksim::pipe_bytes(p[0]);
    vmc::check(cw.d.how == 'D' || (cw.d.how == 'V' && cw.d.n >= 1 && cw.d.n <= 2 && in_pipe == cw.d.n), "C14", "write-result", ("write completed with " + cw.d.str()).c_str());
    vmc::check(in_pipe == 0 || in_pipe == 1 || in_pipe == 2, "C14", "write-result", "pipe holds an impossible number of bytes");
    cw2.buf.reset(new std::byte[1]); cw2.buf_size = 1; std::memcpy(cw2.buf.get(), "Z", 1);
    auto& wop2 = heap_connect(cw2, async_write_some_at(writer, 0, span<const std::byte>(cw2.buf.get(), 1)), IoRcv<unstoppable_token>{&cw2});
    unifex::start(wop2);
    if (in_pipe == 2) { char b[2]; ksim::k_read(p[0], b, 2); in_pipe = 0; }
    vmc::wait_until([&] { return cw2.d.count > 0; });
    vmc::check(cw2.d.how == 'V' && cw2.d.n == 1, "C14", "later-write-affected", ("the write after a cancelled write completed with " + cw2.d.str()).c_str());
    char b[4] = {0}; long got = ksim::k_read(p[0], b, 4);
    vmc::check(got == in_pipe + 1 && b[got - 1] == 'Z' && (in_pipe == 0 || std::memcmp(b, kData, in_pipe) == 0), "C14", "data-corrupt", "pipe contents after the second write are wrong");
    w.stop_and_join();
  }
  ksim::k_close(p[0]);
  w.finish();
  vmc::note(cw.d.str() + ">" + cw2.d.str());
}

// ---- conformance of the ring simulator with the real io_uring ------------------------------------------------------
// Every sequence of `depth` steps over the alphabet below runs on a real ring and on the simulated one; after each step
// both are flushed (enter with GETEVENTS, nothing to wait for) and the multisets of (user_data, res) completions must
// agree.  A step whose user_data is still in flight is skipped (the kernel may pick either of two equal targets).
// args: [depth]
#include <linux/time_types.h>
#include <liburing/io_uring.h>
#include <sys/syscall.h>
#include <sys/mman.h>
#include <sys/eventfd.h>
#include <poll.h>
#include <set>
#include <algorithm>
extern "C" {
int __real_eventfd(unsigned, int);
ssize_t __real_write(int, const void*, size_t);
int __real_close(int);
int __real_pipe2(int*, int);
int __real_munmap(void*, size_t);
}
namespace unifex::linuxos {
int io_uring_setup(unsigned entries, struct io_uring_params* p);
int io_uring_enter(int fd, unsigned to_submit, unsigned min_complete, unsigned flags, sigset_t* sig);
}
namespace {
struct Ring {
  bool sim; int fd = -1;
  unsigned *sq_head, *sq_tail, *sq_mask, *sq_array, *cq_head, *cq_tail, *cq_mask;
  io_uring_sqe* sqes; io_uring_cqe* cqes;
  void* maps[3]; size_t lens[3];
  int ev = -1, pr = -1, pw = -1, nr = -1, nw = -1;
  struct __kernel_timespec ts{};
  char rbuf[4]; struct iovec riov{rbuf, 1};
  char nbuf[4]; struct iovec niov{nbuf, 1};
  bool setup() {
    io_uring_params p; std::memset(&p, 0, sizeof p);
    fd = sim ? unifex::linuxos::io_uring_setup(8, &p) : (int)syscall(__NR_io_uring_setup, 8, &p);
    if (fd < 0) return false;
    lens[0] = p.sq_off.array + p.sq_entries * sizeof(unsigned); lens[1] = p.cq_off.cqes + p.cq_entries * sizeof(io_uring_cqe); lens[2] = p.sq_entries * sizeof(io_uring_sqe);
    maps[0] = mmap(0, lens[0], PROT_READ | PROT_WRITE, MAP_SHARED | MAP_POPULATE, fd, IORING_OFF_SQ_RING);
    maps[1] = mmap(0, lens[1], PROT_READ | PROT_WRITE, MAP_SHARED | MAP_POPULATE, fd, IORING_OFF_CQ_RING);
    maps[2] = mmap(0, lens[2], PROT_READ | PROT_WRITE, MAP_SHARED | MAP_POPULATE, fd, IORING_OFF_SQES);
    if (maps[0] == MAP_FAILED || maps[1] == MAP_FAILED || maps[2] == MAP_FAILED) return false;
    char* s = (char*)maps[0]; char* c = (char*)maps[1];
    sq_head = (unsigned*)(s + p.sq_off.head); sq_tail = (unsigned*)(s + p.sq_off.tail); sq_mask = (unsigned*)(s + p.sq_off.ring_mask); sq_array = (unsigned*)(s + p.sq_off.array);
    cq_head = (unsigned*)(c + p.cq_off.head); cq_tail = (unsigned*)(c + p.cq_off.tail); cq_mask = (unsigned*)(c + p.cq_off.ring_mask); cqes = (io_uring_cqe*)(c + p.cq_off.cqes);
    sqes = (io_uring_sqe*)maps[2];
    int pp[2];
    if (sim) { ev = eventfd(0, EFD_NONBLOCK); pipe2(pp, 0); pr = pp[0]; pw = pp[1]; pipe2(pp, O_NONBLOCK); nr = pp[0]; nw = pp[1]; }
    else { ev = __real_eventfd(0, EFD_NONBLOCK); __real_pipe2(pp, 0); pr = pp[0]; pw = pp[1]; __real_pipe2(pp, O_NONBLOCK); nr = pp[0]; nw = pp[1]; }
    return true;
  }
  void push(const io_uring_sqe& e) {
    unsigned t = __atomic_load_n(sq_tail, __ATOMIC_RELAXED), i = t & *sq_mask;
    sqes[i] = e; sq_array[i] = i;
    __atomic_store_n(sq_tail, t + 1, __ATOMIC_RELEASE);
  }
  int enter(unsigned n) {
    return sim ? unifex::linuxos::io_uring_enter(fd, n, 0, IORING_ENTER_GETEVENTS, nullptr) : (int)syscall(__NR_io_uring_enter, fd, n, 0, IORING_ENTER_GETEVENTS, nullptr, 8);
  }
  std::vector<std::pair<unsigned long long, int>> reap() {
    std::vector<std::pair<unsigned long long, int>> v;
    unsigned h = *cq_head, t = __atomic_load_n(cq_tail, __ATOMIC_ACQUIRE);
    for (; h != t; ++h) v.push_back({cqes[h & *cq_mask].user_data, cqes[h & *cq_mask].res});
    __atomic_store_n(cq_head, h, __ATOMIC_RELEASE);
    std::sort(v.begin(), v.end());
    return v;
  }
  void wr(int f, const void* b, size_t n) { if (sim) { (void)!write(f, b, n); } else { (void)!__real_write(f, b, n); } }
  void teardown() {
    for (int i = 0; i < 3; ++i) munmap(maps[i], lens[i]);
    int fds[6] = {ev, pr, pw, nr, nw, fd};
    for (int f : fds) { if (sim) close(f); else __real_close(f); }
  }
};
}  // namespace
VMC_SEQ_HARNESS(uring_conf, "C14") {
  int depth = vmcrt::arg(0, 3);
  ksim::Config cfg; cfg.uring_sq_entries = 8; cfg.pipe_capacity = 4;
  ksim::reset(cfg);
  Ring S{true}, R{false};
  if (!R.setup()) { vmc::note("real-io_uring-unavailable"); return; }
  if (!S.setup()) vmcrt::fail("!", "uring-conformance", "simulated io_uring_setup failed");
  timespec now; clock_gettime(CLOCK_MONOTONIC, &now);
  S.ts.tv_sec = R.ts.tv_sec = now.tv_sec + 100000;
  std::set<unsigned long long> inflight;
  std::string trace;
  for (int i = 0; i < depth; ++i) {
    int op = vmc::choose(10);
    static const unsigned long long ud_of[10] = {1, 0, 2, 3, 4, 5, 0, 6, 7, 8};
    if (ud_of[op] && inflight.count(ud_of[op])) { trace += "-"; continue; }
    auto step = [&](Ring& r) {
      io_uring_sqe e; std::memset(&e, 0, sizeof e);
      bool submit = true;
      switch (op) {
        case 0: e.opcode = IORING_OP_POLL_ADD; e.fd = r.ev; e.poll_events = POLLIN; e.user_data = 1; break;
        case 1: { uint64_t one = 1; r.wr(r.ev, &one, 8); submit = false; break; }
        case 2: e.opcode = IORING_OP_ASYNC_CANCEL; e.fd = -1; e.addr = 1; e.user_data = 2; break;
        case 3: e.opcode = IORING_OP_TIMEOUT; e.addr = (unsigned long long)(uintptr_t)&r.ts; e.len = 1; e.timeout_flags = IORING_TIMEOUT_ABS; e.user_data = 3; break;
        case 4: e.opcode = IORING_OP_TIMEOUT_REMOVE; e.addr = 3; e.user_data = 4; break;
        case 5: e.opcode = IORING_OP_READV; e.fd = r.pr; e.addr = (unsigned long long)(uintptr_t)&r.riov; e.len = 1; e.user_data = 5; break;
        case 6: r.wr(r.pw, "q", 1); submit = false; break;
        case 7: e.opcode = IORING_OP_ASYNC_CANCEL; e.fd = -1; e.addr = 5; e.user_data = 6; break;
        case 8: e.opcode = IORING_OP_NOP; e.user_data = 7; break;
        default: e.opcode = IORING_OP_READV; e.fd = r.nr; e.addr = (unsigned long long)(uintptr_t)&r.niov; e.len = 1; e.user_data = 8; break;
      }
      if (submit) r.push(e);
      int rc = r.enter(submit ? 1 : 0);
      if (rc < 0) return std::vector<std::pair<unsigned long long, int>>{{~0ull, -errno}};
      r.enter(0);   // a second entry lets the real kernel run completions queued as task work by the first
      return r.reap();
    };
    auto a = step(S), b = step(R);
    trace += std::to_string(op) + " ";
    auto show = [](const std::vector<std::pair<unsigned long long, int>>& v) { std::string s; for (auto& x : v) s += std::to_string(x.first) + ":" + std::to_string(x.second) + ","; return s; };
    if (a != b) vmcrt::fail("!", "uring-conformance", ("completions differ: simulated [" + show(a) + "] real [" + show(b) + "] after steps: " + trace).c_str());
    if (ud_of[op]) inflight.insert(ud_of[op]);
    for (auto& x : a) inflight.erase(x.first);
  }
  S.teardown(); R.teardown();
  std::string l = ksim::leaks();
  if (!l.empty()) vmcrt::fail("!", "uring-conformance", ("simulated resources left: " + l).c_str());
  vmc::note("conforms");
}
