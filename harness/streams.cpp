// C13 — streams: pipelines of stream adaptors over a probe source, driven event by event; list-semantics
// reference and next/cleanup ordering monitors. Sequential (all orders of pending completions / stop / trigger).
#include <vmc_main.hpp>
#include <expr.hpp>
#include <unifex/stream_concepts.hpp>
#include <unifex/transform_stream.hpp>
#include <unifex/filter_stream.hpp>
#include <unifex/reduce_stream.hpp>
#include <unifex/for_each.hpp>
#include <unifex/adapt_stream.hpp>
#include <unifex/next_adapt_stream.hpp>
#include <unifex/cleanup_adapt_stream.hpp>
#include <unifex/via_stream.hpp>
#include <unifex/typed_via_stream.hpp>
#include <unifex/on_stream.hpp>
#include <unifex/take_until.hpp>
#include <unifex/stop_immediately.hpp>
#include <unifex/type_erased_stream.hpp>
#include <unifex/range_stream.hpp>
#include <unifex/single.hpp>
#include <unifex/never.hpp>
#include <unifex/then.hpp>
#include <unifex/just.hpp>
#include <unifex/tracing/async_stack.hpp>
using namespace unifex;
using ex::dyn; using ex::erase; using ex::Mode;

namespace ex {
Ctx* g = nullptr;
kit::AllocLedger* ledger_for_tag(int tag) { return g ? &g->ledgers[tag] : nullptr; }
}  // namespace ex

namespace {
std::string g_case;
void fail(const char* props, const char* key, const std::string& msg) { vmcrt::fail(props, key, (msg + " | case: " + g_case + " | events: " + ex::g->trace).c_str()); }

// ---- probe source stream ---------------------------------------------------------------------------------
struct Src {
  int len = 0, err_at = -1;
  Mode next_mode = Mode::Inline; bool cleanup_deferred = false;
  int pos = 0;
  int next_started = 0, next_completed = 0, cleanup_started = 0, cleanup_completed = 0;
  bool ended = false;            // produced done or error
  bool saw_stop = false;
  bool consumer_done = false;
  int max_outstanding = 0;
  std::vector<int> produced;
};
struct src_next_node final : ex::node {
  Src* s;
  explicit src_next_node(Src* x) : s(x) {}
  struct opimpl final : ex::op_base {
    Src* s; ex::rcv_base& r; bool done_ = false, started_ = false; int pend = -1;
    struct Cb { opimpl* self; void operator()() noexcept { self->on_stop(); } };
    std::optional<inplace_stop_token::callback_type<Cb>> cb;
    opimpl(Src* x, ex::rcv_base& rr) : s(x), r(rr) {}
    ~opimpl() override { if (started_ && !done_) fail("C13,C02", "next-destroyed-early", "a started next() operation was destroyed before it completed"); }
    void fire(bool cancelled) noexcept {
      done_ = true; cb.reset(); ++s->next_completed;
      if (cancelled) { ex::g->trace += "nD "; s->ended = true; r.done(); return; }
      if (s->pos == s->err_at) { ex::g->trace += "nE "; s->ended = true; r.error(std::make_exception_ptr(kit::tagged_error{s->pos + 1})); return; }
      if (s->pos >= s->len) { ex::g->trace += "nD "; s->ended = true; r.done(); return; }
      int v = ++s->pos; s->produced.push_back(v); ex::g->trace += "n" + std::to_string(v) + " ";
      r.value(v);
    }
    void on_stop() noexcept {
      s->saw_stop = true;
      if (s->next_mode == Mode::Reactive && !done_) { if (pend >= 0) ex::g->pending[pend].alive = false; fire(true); }
    }
    void start() noexcept override {
      started_ = true;
      if (s->consumer_done) fail("C13", "next-after-result", "next() started after the consumer's result was delivered");
      if (s->cleanup_started) fail("C13", "next-after-cleanup", "next() started after cleanup() of the same stream was started");
      if (s->next_started > s->next_completed) fail("C13", "next-concurrent", "next() started while the previous next() is still outstanding");
      ++s->next_started;
      inplace_stop_token tok = r.stok();
      if (tok.stop_requested()) s->saw_stop = true;
      if (s->next_mode == Mode::Inline) { fire(false); return; }
      if (s->next_mode == Mode::Reactive && tok.stop_requested()) { fire(true); return; }
      pend = (int)ex::g->pending.size();
      ex::g->pending.push_back(ex::Pending{-2, -1, [this] { fire(false); }, true});
      cb.emplace(tok, Cb{this});
    }
  };
  std::unique_ptr<ex::op_base> connect(ex::rcv_base& r) const override { return std::make_unique<opimpl>(s, r); }
};
struct src_cleanup_node final : ex::node {
  Src* s;
  explicit src_cleanup_node(Src* x) : s(x) {}
  struct opimpl final : ex::op_base {
    Src* s; ex::rcv_base& r; bool done_ = false, started_ = false;
    opimpl(Src* x, ex::rcv_base& rr) : s(x), r(rr) {}
    ~opimpl() override { if (started_ && !done_) fail("C13,C02", "cleanup-destroyed-early", "a started cleanup() operation was destroyed before it completed"); }
    void fire() noexcept { done_ = true; ++s->cleanup_completed; ex::g->trace += "k "; r.done(); }
    void start() noexcept override {
      started_ = true;
      if (s->cleanup_started) fail("C13", "cleanup-twice", "cleanup() of the underlying stream was started more than once");
      if (s->next_started > s->next_completed) fail("C13", "cleanup-during-next", "cleanup() was started while a next() of the same stream is still outstanding");
      if (s->consumer_done) fail("C13", "cleanup-after-result", "cleanup() started after the consumer's result was delivered");
      ++s->cleanup_started;
      if (!s->cleanup_deferred) { fire(); return; }
      ex::g->pending.push_back(ex::Pending{-3, -1, [this] { fire(); }, true});
    }
  };
  std::unique_ptr<ex::op_base> connect(ex::rcv_base& r) const override { return std::make_unique<opimpl>(s, r); }
};
struct probe_stream {
  Src* s;
  dyn next() { return dyn{std::make_shared<src_next_node>(s)}; }
  ex::ddone cleanup() { return ex::ddone{dyn{std::make_shared<src_cleanup_node>(s)}}; }
};

// ---- run-time erasure of streams -----------------------------------------------------------------------------
struct dstream {
  struct impl { virtual dyn next() = 0; virtual ex::ddone cleanup() = 0; virtual ~impl() = default; };
  std::shared_ptr<impl> p;
  dyn next() { return p->next(); }
  ex::ddone cleanup() { return p->cleanup(); }
};
template <class S>
struct simpl final : dstream::impl {
  S s;
  explicit simpl(S x) : s(std::move(x)) {}
  dyn next() override { return ex::erase_factory([this] { return unifex::next(s); }); }
  ex::ddone cleanup() override { return ex::ddone{ex::erase_factory([this] { return unifex::cleanup(s); })}; }
};
template <class S>
dstream erase_stream(S s) { return dstream{std::make_shared<simpl<S>>(std::move(s))}; }

enum AK { A_NONE, A_TRANSFORM, A_FILTER, A_TAKE_UNTIL, A_STOP_IMM, A_TYPE_ERASE, A_VIA, A_ON, A_ADAPT, A_NEXT_ADAPT, A_CLEANUP_ADAPT, A_TYPED_VIA, NAK };
const char* akname[] = {"-", "transform", "filter", "take_until", "stop_immediately", "type_erase", "via_stream", "on_stream", "adapt_stream", "next_adapt_stream", "cleanup_adapt_stream", "typed_via_stream"};

struct Trigger { int leaf = -1; };
dstream apply(int k, dstream in, int layer, int trigger_leaf) {
  switch (k) {
    case A_NONE: return in;
    case A_TRANSFORM: return erase_stream(transform_stream(std::move(in), [layer](int x) noexcept { return x + 100 * (layer + 1); }));
    case A_FILTER: return erase_stream(filter_stream(std::move(in), [](int x) noexcept { return (x % 100) % 2 == 1; }));
    case A_TAKE_UNTIL: return erase_stream(take_until(std::move(in), single(then(ex::leaf(trigger_leaf), [](int) noexcept {}))));
    case A_STOP_IMM: return erase_stream(stop_immediately<int>(std::move(in)));
    case A_TYPE_ERASE: return erase_stream(type_erase<int>(std::move(in)));
    case A_VIA: return erase_stream(via_stream(ex::tag_sched{21 + layer}, std::move(in)));
    case A_TYPED_VIA: return erase_stream(typed_via_stream(ex::tag_sched{23 + layer}, std::move(in)));
    case A_ON: return erase_stream(on_stream(ex::tag_sched{25 + layer}, std::move(in)));
    case A_ADAPT: return erase_stream(adapt_stream(std::move(in), [](auto&& snd) { return then((decltype(snd))snd, [](auto&&... v) noexcept { if constexpr (sizeof...(v) == 1) return (v + ... + 1000); }); }));
    case A_NEXT_ADAPT: return erase_stream(next_adapt_stream(std::move(in), [](auto&& snd) { return then((decltype(snd))snd, [](int v) noexcept { return v + 2000; }); }));
    case A_CLEANUP_ADAPT: return erase_stream(cleanup_adapt_stream(std::move(in), [](auto&& snd) { return (decltype(snd))snd; }));
  }
  std::abort();
}
// reference: the full adapted sequence when nothing is stopped or triggered
std::vector<int> ref_apply(int k, std::vector<int> v, int layer) {
  std::vector<int> o;
  for (int x : v) {
    switch (k) {
      case A_TRANSFORM: o.push_back(x + 100 * (layer + 1)); break;
      case A_FILTER: if ((x % 100) % 2 == 1) o.push_back(x); break;
      case A_ADAPT: o.push_back(x + 1000); break;
      case A_NEXT_ADAPT: o.push_back(x + 2000); break;
      default: o.push_back(x); break;
    }
  }
  return o;
}

struct Top final : ex::rcv_base {
  inplace_stop_source* src; int count = 0; char how = '?'; int v = 0; Src* s;
  void sig(char h) noexcept {
    ++count; how = h; s->consumer_done = true;
    if (count > 1) fail("C13,C01", "completed-twice", "consumer completed twice");
    if (s->next_started > s->next_completed) fail("C13", "result-before-next-done", "consumer's result delivered while a next() is outstanding");
    if (s->next_started > 0 && s->cleanup_completed != 1) fail("C13", "result-before-cleanup", "consumer's result delivered before cleanup() of the underlying stream finished (started=" + std::to_string(s->cleanup_started) + " completed=" + std::to_string(s->cleanup_completed) + ")");
  }
  void value(int x) noexcept override { v = x; sig('V'); }
  void error(std::exception_ptr e) noexcept override { v = kit::error_tag(e); sig('E'); }
  void done() noexcept override { sig('D'); }
  inplace_stop_token stok() const noexcept override { return src->get_token(); }
  bool stop_possible() const noexcept override { return true; }
  int sched_tag() const noexcept override { return 7; }
  int alloc_tag() const noexcept override { return 8; }
  int custom() const noexcept override { return 9; }
};

void run_pipeline(int a1, int a2, int consumer) {
  ex::Ctx ctx; ex::g = &ctx;
  ctx.leaves.resize(2);
  ctx.sched_honours_stop = vmcrt::arg(2, 0) != 0;   // schedulers of via_stream / on_stream answer done once stop was requested
  ctx.configure = [&](ex::LeafInfo& L) { L.outcome = 'V'; L.mode = Mode::Deferred; };   // take_until triggers: deferred value
  Src s;
  s.len = vmc::choose(4);
  s.err_at = vmc::choose(s.len + 2) - 1; if (s.err_at > s.len) s.err_at = -1;
  int nm = vmc::choose(3); s.next_mode = nm == 0 ? Mode::Inline : nm == 1 ? Mode::Deferred : Mode::Reactive;
  s.cleanup_deferred = vmc::choose(2);
  g_case = std::string("src(len=") + std::to_string(s.len) + ",err@" + std::to_string(s.err_at) + ",next=" + std::to_string(nm) + ",cl=" + std::to_string(s.cleanup_deferred) + ") | " + akname[a1] + " | " + akname[a2] + " | " + (consumer ? "for_each" : "reduce");
  std::vector<int> delivered;
  {
    auto* src = new inplace_stop_source();
    Top top; top.src = src; top.s = &s;
    dstream st = erase_stream(probe_stream{&s});
    st = apply(a1, std::move(st), 0, 0);
    st = apply(a2, std::move(st), 1, 1);
    dyn consumer_sender = consumer == 0
        ? erase(reduce_stream(std::move(st), 0, [&delivered](int acc, int x) noexcept { delivered.push_back(x); return acc + x; }))
        : erase(then(for_each(std::move(st), [&delivered](int x) noexcept { delivered.push_back(x); }), []() noexcept { return -1; }));
    using top_op_t = decltype(unifex::connect(consumer_sender, ex::rref{&top}));
    std::unique_ptr<top_op_t> op(new top_op_t(unifex::connect(consumer_sender, ex::rref{&top})));
    bool stop_sent = false, trigger_fired = false;
    if (vmc::choose(2)) { src->request_stop(); stop_sent = true; ctx.trace += "S "; }
    unifex::start(*op);
    while (true) {
      std::vector<int> live;
      for (int i = 0; i < (int)ctx.pending.size(); ++i) if (ctx.pending[i].alive) live.push_back(i);
      // the consumer may be complete while a take_until trigger is... no: everything must be finished by then
      if (live.empty()) break;
      int n = (int)live.size() + (!stop_sent ? 1 : 0);
      int c = vmc::choose(n);
      if (c == (int)live.size()) { src->request_stop(); stop_sent = true; ctx.trace += "S "; continue; }
      auto& p = ctx.pending[live[c]];
      p.alive = false;
      if (p.leaf >= 0) trigger_fired = true;
      auto fire = std::move(p.fire);
      fire();
    }
    if (top.count != 1) fail("C13,C01", "lost-completion", "quiescent but the consumer was signalled " + std::to_string(top.count) + " times");
    // ---- list-semantics oracle ----
    std::vector<int> full; bool src_error = false;
    for (int i = 0; i < s.len; ++i) { if (i == s.err_at) { src_error = true; break; } full.push_back(i + 1); }
    if (s.err_at == s.len) src_error = true;
    std::vector<int> expect = ref_apply(a2, ref_apply(a1, full, 0), 1);
    bool prefix = delivered.size() <= expect.size() && std::equal(delivered.begin(), delivered.end(), expect.begin());
    if (!prefix) fail("C13", "sequence", "delivered elements are not a prefix of the adapted sequence (duplicated, invented or reordered element)");
    bool interrupted = stop_sent || trigger_fired;
    if (!interrupted) {
      if (delivered != expect) fail("C13", "sequence", "stream ended early: " + std::to_string(delivered.size()) + " of " + std::to_string(expect.size()) + " elements delivered without any stop/trigger");
      if (src_error) { if (top.how != 'E' || top.v != s.err_at + 1) fail("C13", "error-lost", "the source's error did not reach the consumer"); }
      else {
        if (top.how != 'V') fail("C13", "result", "consumer did not complete with a value");
        int sum = 0; for (int x : expect) sum += x;
        if (consumer == 0 && top.v != sum) fail("C13", "fold", "reduce_stream result " + std::to_string(top.v) + " is not the fold " + std::to_string(sum) + " over the delivered elements");
      }
    } else if (top.how == 'V' && consumer == 0) {
      int sum = 0; for (int x : delivered) sum += x;
      if (top.v != sum) fail("C13", "fold", "reduce_stream result is not the fold over precisely the delivered elements");
    }
    if (s.next_started > 0 && s.cleanup_started != 1) fail("C13", "cleanup-missing", "next() was started but cleanup() of the underlying stream ran " + std::to_string(s.cleanup_started) + " times");
    delete src; src = nullptr;
    op.reset();
  }
  for (auto& L : ctx.leaves) if (L.ops_alive != 0) fail("C13,C02", "trigger-op-leak", "take_until trigger operation leaked");
  if (ctx.sched_ops_alive != 0) fail("C13,C02", "sched-op-leak", "schedule() operation states leaked");
  if (vmcrt::arg(1, 0)) { std::string d; for (int x : delivered) d += std::to_string(x) + ","; vmc::note(g_case + "|" + ctx.trace + "|" + d); }
  else vmc::note(std::string(akname[a1]) + "|" + akname[a2] + ":" + std::to_string(delivered.size()));
#if !UNIFEX_NO_ASYNC_STACKS
  if (unifex::tryGetCurrentAsyncStackRoot() != nullptr) fail("C20", "async-stack-root", "an async stack root is still installed on this thread after the stream pipeline completed");
#endif
  ex::g = nullptr;
}
}  // namespace

// arg0 = first adaptor (0 none), second adaptor and consumer are enumerated
VMC_SEQ_HARNESS(strm_seq, "C13,C01,C02") {
  int a1 = vmcrt::arg(0, 0);
  int a2 = vmc::choose(NAK);
  int consumer = vmc::choose(2);
  run_pipeline(a1, a2, consumer);
}

// library-provided sources through the same consumers: range_stream, single, never_stream (with stop)
VMC_SEQ_HARNESS(strm_sources, "C13,C01") {
  int which = vmc::choose(3);
  ex::Ctx ctx; ex::g = &ctx;
  kit::RcvState rs; rs.props = "C13,C01"; inplace_stop_source src;
  std::vector<int> got;
  auto red = [&got](int acc, int x) noexcept { got.push_back(x); return acc + x; };
  if (which == 0) {
    int n = vmc::choose(5);
    auto op = unifex::connect(reduce_stream(transform_stream(range_stream{n}, [](int x) noexcept { return x * 2; }), 0, red), kit::Rcv<>{&rs, src.get_token()});
    unifex::start(op);
    vmc::check(rs.count == 1 && rs.how == 'V', "C13,C01", "result", "reduce over range_stream did not complete with a value");
    int sum = 0; for (int i = 0; i < n; ++i) sum += 2 * i;
    vmc::check((int)got.size() == n && rs.value == sum, "C13", "fold", "range_stream elements/fold wrong");
  } else if (which == 1) {
    auto op = unifex::connect(reduce_stream(single(just(41)), 0, red), kit::Rcv<>{&rs, src.get_token()});
    unifex::start(op);
    vmc::check(rs.count == 1 && rs.how == 'V' && rs.value == 41 && got.size() == 1, "C13", "single", "single() did not yield exactly its one element");
  } else {
    auto op = unifex::connect(reduce_stream(stop_immediately<int>(transform_stream(never_stream{}, []() noexcept { return 1; })), 0, red), kit::Rcv<>{&rs, src.get_token()});
    unifex::start(op);
    vmc::check(rs.count == 0, "C13", "never", "never_stream produced something without a stop request");
    src.request_stop();
    vmc::check(rs.count == 1 && got.empty(), "C13,C04", "never-stop", "stop request did not end the never_stream pipeline");
  }
  vmc::note("src" + std::to_string(which));
  ex::g = nullptr;
}
