// C15 — async_mutex v1 / v2: mutual exclusion, no lost waiter, cancellation never leaks the lock, FIFO
#include <vmc_main.hpp>
#include <probes.hpp>
#include <unifex/v1/async_mutex.hpp>
#include <unifex/v2/async_mutex.hpp>
#include <unifex/manual_event_loop.hpp>
using namespace unifex;

namespace {
struct Mon {
  int occupancy = 0, max_occ = 0, entries = 0;
  int order[8]; int norder = 0;
  int starting = -1;              // id of the waiter whose start() is executing right now (FIFO harness)
  bool in_own_start[8] = {};      // was the grant delivered inside the waiter's own start()?
  void enter(int who) {
    ++occupancy; ++entries; if (occupancy > max_occ) max_occ = occupancy;
    if (norder < 8) { in_own_start[norder] = (starting == who); order[norder++] = who; }
    vmc::check(occupancy == 1, "C15", "mutual-exclusion", "two parties hold the async_mutex at the same time");
  }
  void leave() { --occupancy; }
};
// receiver that enters the critical-section monitor the moment the lock is granted
template <class Sched = inline_scheduler>
struct LockRcv {
  Mon* mon; int who; int* count; char* how; inplace_stop_token tok{}; Sched sch{};
  void set_value() noexcept { vmc::publish(); ++*count; *how = 'V'; vmc::check(*count == 1, "C15,C01", "completed-twice", "async_lock completed twice"); mon->enter(who); }
  void set_done() noexcept { vmc::publish(); ++*count; *how = 'D'; vmc::check(*count == 1, "C15,C01", "completed-twice", "async_lock completed twice"); }
  template <class E> void set_error(E&&) noexcept { ++*count; *how = 'E'; }
  friend inplace_stop_token tag_invoke(tag_t<get_stop_token>, const LockRcv& r) noexcept { return r.tok; }
  friend Sched tag_invoke(tag_t<get_scheduler>, const LockRcv& r) noexcept { return r.sch; }
};
template <class S>
struct LoopRcv { LockRcv<S> base; int* thr;
  void set_value() noexcept { *thr = vmc::self(); base.set_value(); }
  void set_done() noexcept { *thr = vmc::self(); base.set_done(); }
  template <class E> void set_error(E&& e) noexcept { base.set_error((E&&)e); }
  friend inplace_stop_token tag_invoke(tag_t<get_stop_token>, const LoopRcv& r) noexcept { return r.base.tok; }
  friend S tag_invoke(tag_t<get_scheduler>, const LoopRcv& r) noexcept { return r.base.sch; } };
}  // namespace

// v1: three lockers (two async_lock, one try_lock) each lock -> critical section -> unlock on their own thread
VMC_HARNESS(mtx_v1, "C15,C01") {
  v1::async_mutex m; Mon mon;
  int cnt[2] = {0, 0}; char how[2] = {'?', '?'};
  auto locker = [&](int i) {
    auto op = unifex::connect(m.async_lock(), LockRcv<>{&mon, i, &cnt[i], &how[i]});
    start(op);
    vmc::wait_until([&] { return cnt[i] > 0; });
    std::atomic<int> in_cs{0}; in_cs.store(1);   // a scheduling point inside the critical section
    mon.leave();
    m.unlock();
  };
  std::thread t1(locker, 0), t2(locker, 1);
  bool got = m.try_lock();
  if (got) { mon.enter(2); std::atomic<int> in_cs{0}; in_cs.store(1); mon.leave(); m.unlock(); }
  t1.join(); t2.join();
  vmc::check(cnt[0] == 1 && cnt[1] == 1, "C15,C01", "lost-waiter", "a started async_lock never completed although every holder unlocked");
  vmc::check(m.try_lock(), "C15", "lock-leaked", "mutex still held after every holder unlocked");
  vmc::note(std::string("try=") + (got ? "1" : "0") + " first=" + std::to_string(mon.order[0]));
}

// v2: holder + two waiters, stop requested on waiter 0 at any point; arg0: 1 = stop before start
VMC_HARNESS(mtx_v2, "C15,C01") {
  v2::async_mutex m; Mon mon;
  bool stop_first = vmcrt::arg(0, 0) != 0;
  inplace_stop_source src0, never;
  int cnt[2] = {0, 0}; char how[2] = {'?', '?'};
  vmc::check(m.try_lock(), "C15", "try-lock", "try_lock on a free mutex failed");
  mon.enter(9);
  if (stop_first) src0.request_stop();
  auto locker = [&](int i) {
    auto op = unifex::connect(m.async_lock(), LockRcv<>{&mon, i, &cnt[i], &how[i], i == 0 ? src0.get_token() : never.get_token()});
    start(op);
    vmc::wait_until([&] { return cnt[i] > 0; });
    if (how[i] == 'V') { mon.leave(); m.unlock(); }
  };
  std::thread t1(locker, 0), t2(locker, 1);
  std::thread st([&] { if (!stop_first) src0.request_stop(); });
  mon.leave();
  m.unlock();
  t1.join(); t2.join(); st.join();
  vmc::check(cnt[0] == 1 && cnt[1] == 1, "C15,C01", "lost-waiter", "a started async_lock never completed");
  vmc::check(how[1] == 'V', "C15", "uncancelled-not-granted", "an uncancelled waiter did not get the lock");
  vmc::check(how[0] == 'V' || how[0] == 'D', "C15", "bad-channel", "async_lock completed with error");
  if (stop_first) vmc::check(how[0] == 'D', "C15,C04", "stop-before-start", "async_lock started with stop already requested did not complete with done");
  bool free_now = m.try_lock();
  vmc::check(free_now, "C15", "lock-leaked", "a waiter completed with done but the mutex is still held (lock handed to a cancelled waiter)");
  vmc::note(std::string(1, how[0]) + how[1]);
}

// v2 with a real scheduler: completions are forwarded through a manual_event_loop run by another thread
VMC_HARNESS(mtx_v2_loop, "C15,C01,C11") {
  v2::async_mutex m; Mon mon;
  manual_event_loop loop;
  using S = decltype(loop.get_scheduler());
  inplace_stop_source src0;
  int cnt = 0; char how = '?'; int done_thread = -1;
  vmc::check(m.try_lock(), "C15", "try-lock", "try_lock on a free mutex failed");
  std::thread runner([&] { loop.run(); });
  int runner_id = -1;
  using R = LoopRcv<S>;
  auto op = unifex::connect(m.async_lock(), R{LockRcv<S>{&mon, 0, &cnt, &how, src0.get_token(), loop.get_scheduler()}, &done_thread});
  start(op);
  std::thread st([&] { src0.request_stop(); });
  m.unlock();
  vmc::wait_until([&] { return cnt > 0; });
  if (how == 'V') { mon.leave(); m.unlock(); }
  st.join();
  loop.stop();
  runner.join();
  vmc::check(cnt == 1, "C15,C01", "lost-waiter", "async_lock never completed");
  vmc::check(m.try_lock(), "C15", "lock-leaked", "a waiter completed with done but the mutex is still held");
  vmc::note(std::string(1, how));
}

// FIFO among queued waiters: one thread starts waiters 0,1,2 in program order while another unlocks.  A waiter that
// finds the mutex free inside its own start() takes it at once (the mutex allows barging, as try_lock does) - that is
// not queueing.  What must never happen is that a waiter which was *handed* the lock by an unlock (grant outside its
// own start()) overtakes a waiter that had queued earlier and is still waiting.
template <class M>
static void fifo_body() {
  M m; Mon mon;
  int cnt[3] = {0, 0, 0}; char how[3] = {'?', '?', '?'};
  vmc::check(m.try_lock(), "C15", "try-lock", "try_lock on a free mutex failed");
  auto op0 = unifex::connect(m.async_lock(), LockRcv<>{&mon, 0, &cnt[0], &how[0]});
  auto op1 = unifex::connect(m.async_lock(), LockRcv<>{&mon, 1, &cnt[1], &how[1]});
  auto op2 = unifex::connect(m.async_lock(), LockRcv<>{&mon, 2, &cnt[2], &how[2]});
  std::thread unlocker([&] {
    m.unlock();
    for (int k = 0; k < 3; ++k) { vmc::wait_until([&] { return mon.occupancy == 1; }); mon.leave(); m.unlock(); }
  });
  mon.starting = 0; start(op0); mon.starting = 1; start(op1); mon.starting = 2; start(op2); mon.starting = -1;
  unlocker.join();
  vmc::check(cnt[0] == 1 && cnt[1] == 1 && cnt[2] == 1, "C15,C01", "lost-waiter", "a queued async_lock never completed");
  // position of each waiter in the grant sequence
  int pos[3] = {-1, -1, -1};
  for (int k = 0; k < 3; ++k) pos[mon.order[k]] = k;
  for (int x = 0; x < 3; ++x) for (int y = 0; y < x; ++y)
    if (pos[x] < pos[y] && !mon.in_own_start[pos[x]])
      vmcrt::fail("C15", "fifo", ("waiter " + std::to_string(x) + " was handed the lock by an unlock before waiter " + std::to_string(y) + ", which had queued earlier: grant order " +
                                  std::to_string(mon.order[0]) + "," + std::to_string(mon.order[1]) + "," + std::to_string(mon.order[2])).c_str());
  vmc::check(m.try_lock(), "C15", "lock-leaked", "mutex still held at the end");
  vmc::note(std::to_string(mon.order[0]) + std::to_string(mon.order[1]) + std::to_string(mon.order[2]));
}
VMC_HARNESS(mtx_fifo_v2, "C15") { fifo_body<v2::async_mutex>(); }
VMC_HARNESS(mtx_fifo_v1, "C15") { fifo_body<v1::async_mutex>(); }
