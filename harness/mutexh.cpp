// C15 — async_mutex v1 / v2: mutual exclusion, no lost waiter, cancellation never leaks the lock, FIFO
#include <vmc_main.hpp>
#include <probes.hpp>
#include <unifex/v1/async_mutex.hpp>
#include <unifex/v2/async_mutex.hpp>
#include <unifex/manual_event_loop.hpp>
using namespace unifex;

namespace {
struct Mon {
  int occupancy = 0, max_occ = 0, entries = 0;
  int order[8]; int norder = 0;
  int starting = -1;              // id of the waiter whose start() is executing right now (FIFO harness)
  bool in_own_start[8] = {};      // was the grant delivered inside the waiter's own start()?
  void enter(int who) {
    ++occupancy; ++entries; if (occupancy > max_occ) max_occ = occupancy;
    if (norder < 8) { in_own_start[norder] = (starting == who); order[norder++] = who; }
    vmc::check(occupancy == 1, "C15", "mutual-exclusion", "two parties hold the async_mutex at the same time");
  }
  void leave() { --occupancy; }
};
// receiver that enters the critical-section monitor the moment the lock is granted
template <class Sched = inline_scheduler>
struct LockRcv {
  Mon* mon; int who; int* count; char* how; inplace_stop_token tok{}; Sched sch{};
  void set_value() noexcept { vmc::publish(); ++*count; *how = 'V'; vmc::check(*count == 1, "C15,C01", "completed-twice", "async_lock completed twice"); mon->enter(who); }
  void set_done() noexcept { vmc::publish(); ++*count; *how = 'D'; vmc::check(*count == 1, "C15,C01", "completed-twice", "async_lock completed twice"); }
  template <class E> void set_error(E&&) noexcept { ++*count; *how = 'E'; }
  friend inplace_stop_token tag_invoke(tag_t<get_stop_token>, const LockRcv& r) noexcept { return r.tok; }
  friend Sched tag_invoke(tag_t<get_scheduler>, const LockRcv& r) noexcept { return r.sch; }
};
template <class S>
struct LoopRcv { LockRcv<S> base; int* thr;
  void set_value() noexcept { *thr = vmc::self(); base.set_value(); }
  void set_done() noexcept { *thr = vmc::self(); base.set_done(); }
  template <class E> void set_error(E&& e) noexcept { base.set_error((E&&)e); }
  friend inplace_stop_token tag_invoke(tag_t<get_stop_token>, const LoopRcv& r) noexcept { return r.base.tok; }
  friend S tag_invoke(tag_t<get_scheduler>, const LoopRcv& r) noexcept { return r.base.sch; } };
}  // namespace

// v1: three lockers (two async_lock, one try_lock) each lock -> critical section -> unlock on their own thread
VMC_HARNESS(mtx_v1, "C15,C01") {
  v1::async_mutex m; Mon mon;
  int cnt[2] = {0, 0}; char how[2] = {'?', '?'};
  auto locker = [&](int i) {
    auto op = unifex::connect(m.async_lock(), LockRcv<>{&mon, i, &cnt[i], &how[i]});
    start(op);
    vmc::wait_until([&] { return cnt[i] > 0; });
    std::atomic<int> in_cs{0}; in_cs.store(1);   // a scheduling point inside the critical section
    mon.leave();
    m.unlock();
  };
  std::thread t1(locker, 0), t2(locker, 1);
  bool got = m.try_lock();
  if (got) { mon.enter(2); std::atomic<int> in_cs{0}; in_cs.store(1); mon.leave(); m.unlock(); }
  t1.join(); t2.join();
  vmc::check(cnt[0] == 1 && cnt[1] == 1, "C15,C01", "lost-waiter", "a started async_lock never completed although every holder unlocked");
  vmc::check(m.try_lock(), "C15", "lock-leaked", "mutex still held after every holder unlocked");
  vmc::note(std::string("try=") + (got ? "1" : "0") + " first=" + std::to_string(mon.order[0]));
}

// v2: holder + two waiters, stop requested on waiter 0 at any point; arg0: 1 = stop before start
VMC_HARNESS(mtx_v2, "C15,C01") {
  v2::async_mutex m; Mon mon;
  bool stop_first = vmcrt::arg(0, 0) != 0;
  inplace_stop_source src0, never;
  int cnt[2] = {0, 0}; char how[2] = {'?', '?'};
  vmc::check(m.try_lock(), "C15", "try-lock", "try_lock on a free mutex failed");
  mon.enter(9);
  if (stop_first) src0.request_stop();
  auto locker = [&](int i) {
    auto op = unifex::connect(m.async_lock(), LockRcv<>{&mon, i, &cnt[i], &how[i], i == 0 ? src0.get_token() : never.get_token()});
    start(op);
    vmc::wait_until([&] { return cnt[i] > 0; });
    if (how[i] == 'V') { mon.leave(); m.unlock(); }
  };
  std::thread t1(locker, 0), t2(locker, 1);
  std::thread st([&] { if (!stop_first) src0.request_stop(); });
  mon.leave();
  m.unlock();
  t1.join(); t2.join(); st.join();
  vmc::check(cnt[0] == 1 && cnt[1] == 1, "C15,C01", "lost-waiter", "a started async_lock never completed");
  vmc::check(how[1] == 'V', "C15", "uncancelled-not-granted", "an uncancelled waiter did not get the lock");
  vmc::check(how[0] == 'V' || how[0] == 'D', "C15", "bad-channel", "async_lock completed with error");
  if (stop_first) vmc::check(how[0] == 'D', "C15,C04", "stop-before-start", "async_lock started with stop already requested did not complete with done");
  bool free_now = m.try_lock();
  vmc::check(free_now, "C15", "lock-leaked", "a waiter completed with done but the mutex is still held (lock handed to a cancelled waiter)");
  vmc::note(std::string(1, how[0]) + how[1]);
}

// v2 with a real scheduler: completions are forwarded through a manual_event_loop run by another thread
VMC_HARNESS(mtx_v2_loop, "C15,C01,C11") {
  v2::async_mutex m; Mon mon;
  manual_event_loop loop;
  using S = decltype(loop.get_scheduler());
  inplace_stop_source src0;
  int cnt = 0; char how = '?'; int done_thread = -1;
  vmc::check(m.try_lock(), "C15", "try-lock", "try_lock on a free mutex failed");
  std::thread runner([&] { loop.run(); });
  int runner_id = -1;
  using R = LoopRcv<S>;
  auto op = unifex::connect(m.async_lock(), R{LockRcv<S>{&mon, 0, &cnt, &how, src0.get_token(), loop.get_scheduler()}, &done_thread});
  start(op);
  std::thread st([&] { src0.request_stop(); });
  m.unlock();
  vmc::wait_until([&] { return cnt > 0; });
  if (how == 'V') { mon.leave(); m.unlock(); }
  st.join();
  loop.stop();
  runner.join();
  vmc::check(cnt == 1, "C15,C01", "lost-waiter", "async_lock never completed");
  vmc::check(m.try_lock(), "C15", "lock-leaked", "a waiter completed with done but the mutex is still held");
  vmc::note(std::string(1, how));
}

// FIFO among queued waiters: one thread starts waiters 0,1,2 in program order while another unlocks.  A waiter that
// finds the mutex free inside its own start() takes it at once (the mutex allows barging, as try_lock does) - that is
// not queueing.  What must never happen is that a waiter which was *handed* the lock by an unlock (grant outside its
// own start()) overtakes a waiter that had queued earlier and is still waiting.
template <class M>
static void fifo_body() {
  M m; Mon mon;
  int cnt[3] = {0, 0, 0}; char how[3] = {'?', '?', '?'};
  vmc::check(m.try_lock(), "C15", "try-lock", "try_lock on a free mutex failed");
  auto op0 = unifex::connect(m.async_lock(), LockRcv<>{&mon, 0, &cnt[0], &how[0]});
  auto op1 = unifex::connect(m.async_lock(), LockRcv<>{&mon, 1, &cnt[1], &how[1]});
  auto op2 = unifex::connect(m.async_lock(), LockRcv<>{&mon, 2, &cnt[2], &how[2]});
  std::thread unlocker([&] {
    m.unlock();
    for (int k = 0; k < 3; ++k) { vmc::wait_until([&] { return mon.occupancy == 1; }); mon.leave(); m.unlock(); }
  });
  mon.starting = 0; start(op0); mon.starting = 1; start(op1); mon.starting = 2; start(op2); mon.starting = -1;
  unlocker.join();
  vmc::check(cnt[0] == 1 && cnt[1] == 1 && cnt[2] == 1, "C15,C01", "lost-waiter", "a queued async_lock never completed");
  // position of each waiter in the grant sequence
  int pos[3] = {-1, -1, -1};
  for (int k = 0; k < 3; ++k) pos[mon.order[k]] = k;
  for (int x = 0; x < 3; ++x) for (int y = 0; y < x; ++y)
    if (pos[x] < pos[y] && !mon.in_own_start[pos[x]])
      vmcrt::fail("C15", "fifo", ("waiter " + std::to_string(x) + " was handed the lock by an unlock before waiter " + std::to_string(y) + ", which had queued earlier: grant order " +
                                  std::to_string(mon.order[0]) + "," + std::to_string(mon.order[1]) + "," + std::to_string(mon.order[2])).c_str());
  vmc::check(m.try_lock(), "C15", "lock-leaked", "mutex still held at the end");
  vmc::note(std::to_string(mon.order[0]) + std::to_string(mon.order[1]) + std::to_string(mon.order[2]));
}
VMC_HARNESS(mtx_fifo_v2, "C15") { fifo_body<v2::async_mutex>(); }
VMC_HARNESS(mtx_fifo_v1, "C15") { fifo_body<v1::async_mutex>(); }

// ---- operation sequences on one thread: the waiter list with elements removed from the front / middle / tail ----------
// Every sequence of up to arg0 operations over { W: start one more async_lock (at most 4), Ck: request stop on waiter k,
// U: the current holder unlocks } starting from a held mutex, then the holder keeps unlocking until nobody waits.
// Reference model: a FIFO list of waiting ids. A cancelled waiter completes with done at the stop request and never owns
// the lock; an unlock hands the lock to the first waiter of the list; at the end every waiter that was not cancelled while
// waiting has been granted the lock exactly once, in queueing order, and the mutex is free.
template <class M>
static void mutex_ops_body() {
  int nops = vmcrt::arg(0, 5);
  M m; Mon mon;
  constexpr int MAXW = 4;
  int cnt[MAXW] = {}; char how[MAXW] = {'?', '?', '?', '?'};
  inplace_stop_source src[MAXW];
  using Op = decltype(unifex::connect(m.async_lock(), LockRcv<>{&mon, 0, &cnt[0], &how[0], src[0].get_token()}));
  struct Holder { Op op; Holder(M& mm, LockRcv<> r) : op(unifex::connect(mm.async_lock(), std::move(r))) {} };
  std::unique_ptr<Holder> ops[MAXW];
  std::vector<int> waiting;          // model: ids waiting, in queueing order
  std::vector<int> expect_grants;    // model: order in which ids must be granted
  int holder = 9, nw = 0;            // 9 = the harness itself (try_lock), -1 = free
  std::string trace;
  vmc::check(m.try_lock(), "C15", "try-lock", "try_lock on a free mutex failed");
  mon.enter(9);
  auto model_unlock = [&] {
    if (waiting.empty()) { holder = -1; return; }
    holder = waiting.front(); waiting.erase(waiting.begin()); expect_grants.push_back(holder);
  };
  auto real_unlock = [&] { mon.leave(); m.unlock(); };
  auto check_state = [&](const char* when) {
    for (int i = 0; i < nw; ++i) {
      bool is_waiting = std::find(waiting.begin(), waiting.end(), i) != waiting.end();
      if (is_waiting && cnt[i] != 0) vmcrt::fail("C15,C01", "early-completion", (std::string(when) + ": waiter " + std::to_string(i) + " completed (" + how[i] + ") although it is still queued behind the holder; ops: " + trace).c_str());
      if (!is_waiting && cnt[i] != 1) vmcrt::fail("C15,C01", "lost-waiter", (std::string(when) + ": waiter " + std::to_string(i) + " should have completed by now (granted or cancelled); ops: " + trace).c_str());
    }
    int real_holder = mon.occupancy == 1 ? mon.order[mon.norder - 1] : -1;
    if (real_holder != holder) vmcrt::fail("C15", "wrong-holder", (std::string(when) + ": lock held by " + std::to_string(real_holder) + ", reference says " + std::to_string(holder) + "; ops: " + trace).c_str());
  };
  for (int step = 0; step < nops; ++step) {
    // menu: W (if nw < MAXW), U (if somebody holds), C for every waiting id
    std::vector<std::pair<char, int>> menu;
    if (nw < MAXW) menu.push_back({'W', nw});
    if (holder != -1) menu.push_back({'U', 0});
    for (int id : waiting) menu.push_back({'C', id});
    if (menu.empty()) break;
    auto [op, id] = menu[vmc::choose((int)menu.size())];
    trace += op; if (op != 'U') trace += std::to_string(id); trace += ' ';
    if (op == 'W') {
      ops[id] = std::make_unique<Holder>(m, LockRcv<>{&mon, id, &cnt[id], &how[id], src[id].get_token()});
      ++nw;
      if (holder == -1) { holder = id; expect_grants.push_back(id); } else waiting.push_back(id);
      start(ops[id]->op);
    } else if (op == 'U') {
      model_unlock();
      real_unlock();
    } else {
      waiting.erase(std::find(waiting.begin(), waiting.end(), id));
      src[id].request_stop();
      if (how[id] != 'D') vmcrt::fail("C15,C04", "cancel-not-done", ("a queued waiter whose stop token fired did not complete with done; ops: " + trace).c_str());
    }
    check_state("after op");
  }
  // drain
  int guard = 0;
  while (holder != -1 && guard++ < 10) { trace += "U "; model_unlock(); real_unlock(); check_state("drain"); }
  // grants happened in queueing order
  std::vector<int> got;
  for (int k = 0; k < mon.norder; ++k) if (mon.order[k] != 9) got.push_back(mon.order[k]);
  if (got != expect_grants) {
    std::string a, b; for (int x : got) a += std::to_string(x); for (int x : expect_grants) b += std::to_string(x);
    vmcrt::fail("C15", "fifo", ("grant order " + a + ", reference (queueing order without the cancelled ones) " + b + "; ops: " + trace).c_str());
  }
  vmc::check(m.try_lock(), "C15", "lock-leaked", "mutex still held after every holder unlocked");
  for (int i = 0; i < nw; ++i) ops[i].reset();
  vmc::note(std::to_string(nw) + "w" + std::to_string((int)got.size()) + "g");
}
VMC_SEQ_HARNESS(mtx_v2_ops, "C15,C01,C04") { mutex_ops_body<v2::async_mutex>(); }
