// C10 / C11 — coroutine tasks: a script-interpreting task<int> runs enumerated scripts (await leaf, await with
// try/catch, await nested script, register cleanup, throw, return) against a reference interpreter; every order
// of pending completions / scheduler hops / stop request is enumerated.
#include <vmc_main.hpp>
#include <expr.hpp>
#include <unifex/task.hpp>
#include <unifex/at_coroutine_exit.hpp>
#include <unifex/just_from.hpp>
#include <unifex/then.hpp>
#include <unifex/stop_if_requested.hpp>
#include <unifex/tracing/async_stack.hpp>
using namespace unifex;
using ex::dyn; using ex::Mode;

namespace ex {
Ctx* g = nullptr;
kit::AllocLedger* ledger_for_tag(int tag) { return g ? &g->ledgers[tag] : nullptr; }
}  // namespace ex

namespace {
enum StepKind { S_AWAIT, S_AWAIT_CATCH, S_NESTED, S_CLEANUP, S_CLEANUP_SENDER, S_THROW, S_RETURN, NSTEP };
struct Step { int kind; int leaf = -1; int child = -1; int id = 0; };
struct Script { std::vector<Step> steps; int id = 0; };
struct Program { std::vector<Script> scripts; int nleaves = 0; int ncleanups = 0; };

struct Run {
  Program* prog;
  std::vector<std::string> log;    // observable event log (cleanups, body resumptions, locals)
  int locals_alive = 0, locals_made = 0;
  int bad_ctx = 0;                 // resumptions that did not happen on the task's scheduler context
  int task_ctx = 7;
};
Run* R;
// (when exactly locals die relative to the cleanup actions is not part of the property: only that they do)
struct Local { int script; explicit Local(int s) : script(s) { ++R->locals_alive; ++R->locals_made; } ~Local() { --R->locals_alive; } Local(const Local&) = delete; };

void resumed() { if (ex::g->cur_ctx != R->task_ctx) ++R->bad_ctx; }

task<int> interpret(int si) {
  Local local(si);
  const Script& s = R->prog->scripts[si];
  int acc = 0;
  for (const Step& st : s.steps) {
    switch (st.kind) {
      case S_AWAIT: { int v = co_await ex::leaf(st.leaf); resumed(); acc += v; break; }
      case S_AWAIT_CATCH: {
        try { int v = co_await ex::leaf(st.leaf); resumed(); acc += v; }
        catch (const kit::tagged_error& e) { resumed(); acc += 1000 + e.tag; }
        break; }
      case S_NESTED: { int v = co_await interpret(st.child); resumed(); R->log.push_back("back" + std::to_string(si)); acc += 10 * v; break; }
      case S_CLEANUP: { int k = st.id;
        co_await at_coroutine_exit([](int kk) -> task<void> { R->log.push_back("cleanup" + std::to_string(kk)); co_return; }, k);
        break; }
      case S_CLEANUP_SENDER: { int k = st.id;
        co_await at_coroutine_exit([k] { return just_from([k]() noexcept { R->log.push_back("cleanup" + std::to_string(k)); }); });
        break; }
      case S_THROW: throw kit::tagged_error{700 + si};
      case S_RETURN: co_return acc + 5;
    }
  }
  co_return acc;
}

// ---- reference interpreter ------------------------------------------------------------------------------------
struct RRes { char ch; int v; };
struct RefCtx { Program* p; std::function<char(int)> outcome; std::vector<std::string> log; };
RRes ref_run(RefCtx& c, int si) {
  const Script& s = c.p->scripts[si];
  std::vector<int> cleanups;
  int acc = 0; RRes out{'V', 0}; bool exited = false;
  for (const Step& st : s.steps) {
    if (exited) break;
    switch (st.kind) {
      case S_AWAIT: { char o = c.outcome(st.leaf);
        if (o == 'V') acc += st.leaf + 1; else if (o == 'E') { out = RRes{'E', st.leaf + 1}; exited = true; } else { out = RRes{'D', 0}; exited = true; }
        break; }
      case S_AWAIT_CATCH: { char o = c.outcome(st.leaf);
        if (o == 'V') acc += st.leaf + 1; else if (o == 'E') acc += 1000 + st.leaf + 1; else { out = RRes{'D', 0}; exited = true; }
        break; }
      case S_NESTED: { RRes r = ref_run(c, st.child);
        if (r.ch == 'V') { c.log.push_back("back" + std::to_string(si)); acc += 10 * r.v; }
        else { out = r; exited = true; }
        break; }
      case S_CLEANUP: case S_CLEANUP_SENDER: cleanups.push_back(st.id); break;
      case S_THROW: out = RRes{'E', 700 + si}; exited = true; break;
      case S_RETURN: out = RRes{'V', acc + 5}; exited = true; break;
    }
  }
  if (!exited) out = RRes{'V', acc};
  // the cleanup actions run in reverse registration order, before the parent resumes
  for (int i = (int)cleanups.size() - 1; i >= 0; --i) c.log.push_back("cleanup" + std::to_string(cleanups[i]));
  return out;
}

// ---- program enumeration -------------------------------------------------------------------------------------------
int build_script(Program& p, int depth, int max_steps) {
  int si = (int)p.scripts.size();
  p.scripts.push_back(Script{});
  p.scripts[si].id = si;
  int n = 1 + vmc::choose(max_steps);
  for (int i = 0; i < n; ++i) {
    int k = vmc::choose(depth > 0 ? NSTEP : NSTEP - 1);
    if (depth == 0 && k >= S_NESTED) ++k;   // skip S_NESTED at the innermost level
    Step st; st.kind = k;
    if (k == S_AWAIT || k == S_AWAIT_CATCH) st.leaf = p.nleaves++;
    if (k == S_CLEANUP || k == S_CLEANUP_SENDER) st.id = p.ncleanups++;
    if (k == S_NESTED) { int c = build_script(p, depth - 1, 2); st.child = c; }
    p.scripts[si].steps.push_back(st);
    if (k == S_THROW || k == S_RETURN) break;
  }
  return si;
}
std::string show(const Program& p, int si) {
  static const char* nm[] = {"await", "await_catch", "nested", "cleanup", "cleanup_s", "throw", "return"};
  std::string s = "{";
  for (auto& st : p.scripts[si].steps) {
    s += nm[st.kind];
    if (st.leaf >= 0) s += "L" + std::to_string(st.leaf);
    if (st.kind == S_NESTED) s += show(p, st.child);
    if (st.kind == S_CLEANUP || st.kind == S_CLEANUP_SENDER) s += std::to_string(st.id);
    s += ";";
  }
  return s + "}";
}

struct Top final : ex::rcv_base {
  inplace_stop_source* src; int count = 0; char how = '?'; int v = 0; int ctx = -1;
  void sig(char h) noexcept { ++count; how = h; ctx = ex::g->cur_ctx; if (count > 1) vmcrt::fail("C10,C01", "completed-twice", "task completed twice"); }
  void value(int x) noexcept override { v = x; sig('V'); }
  void error(std::exception_ptr e) noexcept override { v = kit::error_tag(e); sig('E'); }
  void done() noexcept override { sig('D'); }
  inplace_stop_token stok() const noexcept override { return src->get_token(); }
  bool stop_possible() const noexcept override { return true; }
  int sched_tag() const noexcept override { return 7; }
  int alloc_tag() const noexcept override { return 8; }
  int custom() const noexcept override { return 9; }
};
std::string g_case;
void fail(const char* props, const char* key, const std::string& msg) { vmcrt::fail(props, key, (msg + " | script: " + g_case + " | events: " + ex::g->trace).c_str()); }
}  // namespace

// arg0: nesting depth (default 1), arg1: 1 = scheduler hops are deferred events, arg2: 1 = with stop events
VMC_SEQ_HARNESS(coro_script, "C10,C11,C01,C02") {
  int depth = vmcrt::arg(0, 1); bool defer = vmcrt::arg(1, 0) != 0; bool stops = vmcrt::arg(2, 0) != 0;
  Program prog; Run run; run.prog = &prog; R = &run;
  int root = build_script(prog, depth, depth > 0 ? 2 : 3);
  ex::Ctx ctx; ex::g = &ctx;
  ctx.defer_sched = defer;
  ctx.leaves.resize(prog.nleaves);
  ctx.configure = [&](ex::LeafInfo& L) {
    L.outcome = "VED"[vmc::choose(3)];
    int m = vmc::choose(stops ? 3 : 2);
    L.mode = m == 0 ? Mode::Inline : m == 1 ? Mode::Deferred : Mode::Reactive;
  };
  g_case = show(prog, root);
  bool stop_sent = false;
  {
    auto* src = new inplace_stop_source();
    Top top; top.src = src;
    {
      auto op = unifex::connect(interpret(root), ex::rref{&top});
      // the task is started on its own scheduler's context (the premise of scheduler affinity)
      ctx.cur_ctx = run.task_ctx;
      unifex::start(op);
      ctx.cur_ctx = 0;
      bool need_stop_check = false;
      while (true) {
        std::vector<int> live;
        bool sched_pending = false;
        for (int i = 0; i < (int)ctx.pending.size(); ++i) if (ctx.pending[i].alive) { live.push_back(i); if (ctx.pending[i].sched_ctx >= 0) sched_pending = true; }
        if (need_stop_check && !sched_pending) {
          // a stop request on the awaiting receiver reaches the sender the task is currently awaiting (the task
          // forwards it through its scheduler, so only once no scheduler item is outstanding)
          need_stop_check = false;
          for (int i = 0; i < prog.nleaves; ++i)
            if (ctx.leaf(i).starts > ctx.leaf(i).completions && !ctx.leaf(i).stop_seen)
              fail("C10,C04", "stop-not-delivered", "the sender the task is awaiting (L" + std::to_string(i) + ") did not observe the stop request");
        }
        if (live.empty()) break;
        int n = (int)live.size() + ((stops && !stop_sent) ? 1 : 0);
        int c = vmc::choose(n);
        if (c == (int)live.size()) {
          ctx.cur_ctx = run.task_ctx; src->request_stop(); ctx.cur_ctx = 0; stop_sent = true; ctx.trace += "S ";
          need_stop_check = true;
          continue;
        }
        auto& p = ctx.pending[live[c]];
        p.alive = false;
        auto fire = std::move(p.fire);
        int save = ctx.cur_ctx; ctx.cur_ctx = p.sched_ctx >= 0 ? p.sched_ctx : 0;
        fire();
        ctx.cur_ctx = save;
      }
      if (top.count != 1) fail("C10,C01", "lost-completion", "quiescent but the task's receiver was signalled " + std::to_string(top.count) + " times");
    }
    delete src;
    // reference
    RefCtx rc; rc.p = &prog; rc.outcome = [&](int id) { return ctx.leaf(id).configured ? ctx.leaf(id).outcome : 'V'; };
    bool interrupted = stop_sent;
    // reactive leaves that completed done because of the stop: take the leaf's actual completion
    std::vector<char> actual(prog.nleaves, '?');
    RRes want = ref_run(rc, root);
    if (!interrupted) {
      if (top.how != want.ch || (top.how != 'D' && top.v != want.v))
        fail("C10,C05", "result", "task completed with " + std::string(1, top.how) + std::to_string(top.v) + ", reference interpreter says " + std::string(1, want.ch) + std::to_string(want.v));
      if (run.log != rc.log) {
        std::string a, b; for (auto& x : run.log) a += x + " "; for (auto& x : rc.log) b += x + " ";
        fail("C10", "cleanup-order", "observed [" + a + "] but the reference order of locals/cleanups/parent resumption is [" + b + "]");
      }
    } else {
      // with a stop request the exit path may differ, but every registered cleanup still runs exactly once, in
      // reverse registration order within its coroutine, and never after the parent resumed
      std::map<std::string, int> seen;
      for (auto& x : run.log) if (x.rfind("cleanup", 0) == 0) { if (++seen[x] > 1) fail("C10", "cleanup-twice", x + " ran more than once"); }
    }
    // every cleanup that was registered ran exactly once: registered = those whose registering step was reached
    {
      std::map<std::string, int> seen;
      for (auto& x : run.log) if (x.rfind("cleanup", 0) == 0) ++seen[x];
      for (auto& kv : seen) if (kv.second != 1) fail("C10", "cleanup-twice", kv.first + " ran " + std::to_string(kv.second) + " times");
    }
    if (vmcrt::arg(3, 0)) { std::string lg; for (auto& x : run.log) lg += x + ","; vmc::note(g_case + "|" + ctx.trace + "|" + std::string(1, top.how) + std::to_string(top.v) + "|" + lg); }
    else vmc::note(std::string(1, top.how) + (stop_sent ? "s" : "") + std::to_string(prog.scripts.size()));
#if !UNIFEX_NO_ASYNC_STACKS
    if (unifex::tryGetCurrentAsyncStackRoot() != nullptr) fail("C20", "async-stack-root", "an async stack root is still installed on this thread after the task completed");
#endif
    if (run.locals_alive != 0) fail("C10,C02", "frame-leak", "coroutine locals alive after the task completed: a frame was not destroyed (or destroyed twice): " + std::to_string(run.locals_alive));
    if (run.bad_ctx != 0) fail("C11,C10", "wrong-context", std::to_string(run.bad_ctx) + " resumption(s) of the task body did not happen on the task's scheduler");
    if (top.ctx != run.task_ctx && prog.nleaves > 0 && top.how != '?') {
      bool any_deferred = false; for (int i = 0; i < prog.nleaves; ++i) if (ctx.leaf(i).configured && ctx.leaf(i).mode != Mode::Inline && ctx.leaf(i).starts) any_deferred = true;
      if (any_deferred) fail("C11,C10", "wrong-context", "task completed on context " + std::to_string(top.ctx) + " instead of its scheduler's");
    }
  }
  for (int i = 0; i < prog.nleaves; ++i) if (ctx.leaf(i).ops_alive != 0) fail("C10,C02", "leaf-op-leak", "awaited sender's operation state leaked");
  if (ctx.sched_ops_alive != 0) fail("C10,C02", "sched-op-leak", "schedule() operation leaked");
  ex::g = nullptr; R = nullptr;
}

// co_return whose conversion to the task's result type throws: the task completes with that exception, cleanups
// still run, and no result object is destroyed that was never constructed
namespace {
struct RetLedger { int ctor = 0, dtor = 0, bad_dtor = 0; std::set<const void*> live; };
RetLedger* RL;
struct RetVal {
  int v;
  RetVal(int x) : v(x) { if (x < 0) throw kit::tagged_error{800 - x}; ++RL->ctor; RL->live.insert(this); }
  RetVal(const RetVal& o) : v(o.v) { ++RL->ctor; RL->live.insert(this); }
  RetVal(RetVal&& o) noexcept : v(o.v) { ++RL->ctor; RL->live.insert(this); }
  ~RetVal() { if (!RL->live.erase(this)) ++RL->bad_dtor; ++RL->dtor; }
};
int g_ret_cleanups;
task<RetVal> ret_task(int x, int ncleanup) {
  for (int i = 0; i < ncleanup; ++i) co_await at_coroutine_exit([]() -> task<void> { ++g_ret_cleanups; co_return; });
  co_return x;   // int -> RetVal: throws for negative x
}
task<int> ret_outer(int x, int ncleanup, int depth) {
  try {
    if (depth > 0) { int v = co_await ret_outer(x, ncleanup, depth - 1); co_return v; }
    RetVal r = co_await ret_task(x, ncleanup);
    co_return r.v;
  } catch (const kit::tagged_error& e) { co_return -e.tag; }
}
}  // namespace
VMC_SEQ_HARNESS(coro_return_throws, "C10,C02") {
  int x = vmc::choose(2) ? 5 : -1; int ncleanup = vmc::choose(3); int depth = vmc::choose(3);
  RetLedger led; RL = &led; g_ret_cleanups = 0;
  ex::Ctx ctx; ex::g = &ctx;
  {
    inplace_stop_source src; Top top; top.src = &src;
    {
      auto op = unifex::connect(ret_outer(x, ncleanup, depth), ex::rref{&top});
      ctx.cur_ctx = 7; unifex::start(op); ctx.cur_ctx = 0;
    }
    vmc::check(top.count == 1 && top.how == 'V', "C10,C01", "result", "task did not complete with a value");
    vmc::check(top.v == (x < 0 ? -(800 - x) : x), "C10", "result", "an exception thrown while converting the co_return operand did not become the task's error (got " + std::to_string(top.v) + ")");
    vmc::check(g_ret_cleanups == ncleanup, "C10", "cleanup-count", "cleanup actions did not run exactly once each on the exception exit path");
  }
  vmc::check(led.bad_dtor == 0, "C10,C02", "destroyed-never-constructed", "a task result object was destroyed that was never constructed");
  vmc::check(led.ctor == led.dtor && led.live.empty(), "C10,C02", "result-ledger", "task result objects constructed " + std::to_string(led.ctor) + " times, destroyed " + std::to_string(led.dtor) + " times");
  vmc::note(std::string(x < 0 ? "throw" : "value") + std::to_string(ncleanup) + "d" + std::to_string(depth));
  ex::g = nullptr;
}
