// exprgen: every expression tree over the adaptor alphabet up to a depth bound x leaf outcomes x
// inline/deferred/reactive x every order of {complete pending leaf, request stop} x one throwing callable,
// executed on the real adaptors and compared in lock-step with a reference model.
// Serves C01, C02, C04, C05, C12 (and C18b: any_sender_of inserted; C11: completion context).
#include <vmc_main.hpp>
#include <expr.hpp>
#include <unifex/then.hpp>
#include <unifex/upon_error.hpp>
#include <unifex/upon_done.hpp>
#include <unifex/let_value.hpp>
#include <unifex/let_error.hpp>
#include <unifex/let_done.hpp>
#include <unifex/let_value_with.hpp>
#include <unifex/let_value_with_stop_source.hpp>
#include <unifex/let_value_with_stop_token.hpp>
#include <unifex/finally.hpp>
#include <unifex/sequence.hpp>
#include <unifex/when_all.hpp>
#include <unifex/when_all_range.hpp>
#include <unifex/when_any.hpp>
#include <unifex/stop_when.hpp>
#include <unifex/retry_when.hpp>
#include <unifex/repeat_effect_until.hpp>
#include <unifex/materialize.hpp>
#include <unifex/dematerialize.hpp>
#include <unifex/done_as_optional.hpp>
#include <unifex/into_variant.hpp>
#include <unifex/variant_sender.hpp>
#include <unifex/via.hpp>
#include <unifex/on.hpp>
#include <unifex/unstoppable.hpp>
#include <unifex/with_query_value.hpp>
#include <unifex/with_allocator.hpp>
#include <unifex/allocate.hpp>
#include <unifex/any_sender_of.hpp>
#include <unifex/detach_on_cancel.hpp>
#include <unifex/just.hpp>
#include <unifex/just_done.hpp>
#include <unifex/just_error.hpp>
#include <unifex/just_from.hpp>
#include <unifex/defer.hpp>
#include <unifex/tracing/async_stack.hpp>
using namespace unifex;
using ex::dyn; using ex::erase; using ex::erase_rv; using ex::Mode;

namespace ex {
Ctx* g = nullptr;
kit::AllocLedger* ledger_for_tag(int tag) { return g ? &g->ledgers[tag] : nullptr; }
}  // namespace ex

namespace {
enum Kind {
  LEAF, THEN, UPON_ERROR, UPON_DONE, MATDEMAT, UNSTOPPABLE, VIA, ON, DONE_OPT, INTO_VAR, LVSS, LVST, WITH_QUERY, WITH_ALLOC,
  ALLOCATE, ANY_SENDER, LET_VALUE_WITH, VARIANT,
  LETV, LETE, LETD, SEQ, FIN, WALL, WALLR, WANY, SWHEN, RETRY,
  REPEAT,      // repeat_effect_until(child, "second iteration done"): unary, connects its child as an lvalue once per iteration
  NKIND
};
const char* kname[] = {"leaf", "then", "upon_error", "upon_done", "mat_demat", "unstoppable", "via", "on", "done_as_optional", "into_variant",
                       "let_value_with_stop_source", "let_value_with_stop_token", "with_query_value", "with_allocator", "allocate", "any_sender_of",
                       "let_value_with", "variant_sender", "let_value", "let_error", "let_done", "sequence", "finally", "when_all", "when_all_range", "when_any",
                       "stop_when", "retry_when", "repeat_effect_until"};
int karity(int k) { return k == LEAF ? 0 : (k < LETV || k == REPEAT) ? 1 : 2; }
bool has_callable(int k) { return k == THEN || k == UPON_ERROR || k == UPON_DONE || k == LETV || k == LETE || k == LETD || k == RETRY || k == LET_VALUE_WITH || k == LVSS || k == LVST; }

struct Tree { int kind = LEAF; int leaf = -1; int id = 0; std::vector<Tree> kids; };
std::string show(const Tree& t) {
  if (t.kind == LEAF) return "L" + std::to_string(t.leaf);
  std::string s = std::string(kname[t.kind]) + "(";
  for (size_t i = 0; i < t.kids.size(); ++i) s += (i ? "," : "") + show(t.kids[i]);
  return s + ")";
}
int number(Tree& t, int& nodes, int& leaves) {  // assigns node ids (pre-order) and leaf ids (left to right)
  t.id = nodes++;
  if (t.kind == LEAF) t.leaf = leaves++;
  for (auto& k : t.kids) number(k, nodes, leaves);
  return nodes;
}

// ---- which callable throws (fault enumeration): node id of the throwing callable, or -1 -----------------
int g_throw_node = -1;
bool g_thrown = false;   // the injected fault is one-shot: a callable that is invoked again (retry_when, repeat_effect_until) succeeds
struct injected_fault { int node; };
void maybe_throw(int node) { if (node == g_throw_node && !g_thrown) { g_thrown = true; throw kit::tagged_error{900 + node}; } }

using any_int_sender = any_sender_of<int>;

auto voidify(dyn d) { return then(std::move(d), [](int) noexcept {}); }

dyn build(const Tree& t) {
  const int id = t.id;
  switch (t.kind) {
    case LEAF: return ex::leaf(t.leaf);
    case THEN: return erase(then(build(t.kids[0]), [id](int x) { maybe_throw(id); return x + 100; }));
    case UPON_ERROR: return erase(upon_error(build(t.kids[0]), [id](std::exception_ptr) { maybe_throw(id); return 500 + id; }));
    case UPON_DONE: return erase(upon_done(build(t.kids[0]), [id]() { maybe_throw(id); return 600 + id; }));
    case MATDEMAT: return erase(dematerialize(materialize(build(t.kids[0]))));
    case UNSTOPPABLE: return erase(unstoppable(build(t.kids[0])));
    case VIA: return erase(via(build(t.kids[0]), ex::tag_sched{10 + id}));
    case ON: return erase(on(ex::tag_sched{10 + id}, build(t.kids[0])));
    case DONE_OPT: return erase(then(done_as_optional(build(t.kids[0])), [](std::optional<int> o) noexcept { return o ? *o : -7; }));
    case INTO_VAR: return erase(then(into_variant(build(t.kids[0])), [](auto v) noexcept { return std::get<0>(std::get<0>(v)); }));
    case LVSS: { auto k0 = t.kids[0]; return erase(let_value_with_stop_source([k0, id](inplace_stop_source&) { maybe_throw(id); return build(k0); })); }
    case LVST: { auto k0 = t.kids[0]; return erase(let_value_with_stop_token([k0, id](inplace_stop_token) { maybe_throw(id); return build(k0); })); }
    case WITH_QUERY: return erase(with_query_value(with_query_value(build(t.kids[0]), get_scheduler, ex::tag_sched{30 + id}), ex::get_custom, 40 + id));
    case WITH_ALLOC: return erase(with_allocator(build(t.kids[0]), ex::tag_alloc<std::byte>{ex::ledger_for_tag(50 + id), 50 + id}));
    case ALLOCATE: return erase(allocate(build(t.kids[0])));
    case ANY_SENDER: { auto k0 = t.kids[0]; return ex::erase_factory([k0] { return any_int_sender(build(k0)); }); }
    case LET_VALUE_WITH: { auto k0 = t.kids[0]; return erase(let_value_with([id] { maybe_throw(id); return 3; }, [k0](int&) { return build(k0); })); }
    case LETV: { auto k1 = t.kids[1]; return erase(let_value(build(t.kids[0]), [k1, id](int& x) { maybe_throw(id); return then(build(k1), [&x](int y) noexcept { return x * 1000 + y; }); })); }
    case LETE: { auto k1 = t.kids[1]; return erase_rv(let_error(build(t.kids[0]), [k1, id](std::exception_ptr) { maybe_throw(id); return build(k1); })); }
    case LETD: { auto k1 = t.kids[1]; return erase(let_done(build(t.kids[0]), [k1, id]() { maybe_throw(id); return build(k1); })); }
    case SEQ: return erase(sequence(voidify(build(t.kids[0])), build(t.kids[1])));
    case FIN: return erase(finally(build(t.kids[0]), voidify(build(t.kids[1]))));
    case WALL: return erase(then(when_all(build(t.kids[0]), build(t.kids[1])), [](auto&& a, auto&& b) noexcept { return std::get<0>(std::get<0>(a)) * 1000 + std::get<0>(std::get<0>(b)); }));
    case WALLR: { std::vector<dyn> v{build(t.kids[0]), build(t.kids[1])}; return erase(then(when_all_range(std::move(v)), [](std::vector<int> r) noexcept { return r[0] * 1000 + r[1]; })); }
    case WANY: return erase(when_any(build(t.kids[0]), build(t.kids[1])));
    case SWHEN: return erase(stop_when(build(t.kids[0]), voidify(build(t.kids[1]))));
    case RETRY: { auto k1 = t.kids[1]; return erase(retry_when(build(t.kids[0]), [k1, id](std::exception_ptr) { maybe_throw(id); return voidify(build(k1)); })); }
    case REPEAT: return erase(then(repeat_effect_until(voidify(build(t.kids[0])), [n = 0]() mutable noexcept { return ++n >= 2; }), []() noexcept { return 42; }));
    case VARIANT: { using vs = variant_sender<dyn, decltype(just(0))>;
      // picks one of two statically different sender types at run time: even node ids run the child
      if (id % 2 == 0) return erase(vs{build(t.kids[0])});
      return erase(vs{just(777)}); }
  }
  std::abort();
}

// ---- reference model -------------------------------------------------------------------------------------
struct Res { char ch = '?'; int v = 0; bool any_of_d_or = false; };
bool operator==(const Res& a, const Res& b) { return a.ch == b.ch && a.v == b.v; }
std::string rstr(Res r) { return std::string(1, r.ch) + (r.ch == 'D' ? "" : std::to_string(r.v)); }

struct Exp { int sched = 7, alloc = 8, custom = 9; bool stop_possible = true; };  // what a child receiver answers

struct MLeaf { bool started = false, pending = false, must_stop = false, stop_at_start = false; int starts = 0; Exp exp; bool exp_valid = false; };
// A model node. "tok" is the node whose stop source provides this node's stop token (nullptr = unstoppable;
// the model's `outer` pseudo node stands for the outermost receiver's source).
struct MNode {
  const Tree* t = nullptr; MNode* parent = nullptr; int idx = 0;
  MNode* kids[2] = {nullptr, nullptr};
  MNode* tok = nullptr;
  bool running = false;
  Exp exp;                      // queries visible to this node's children
  // stop-source role (when_all, when_all_range, when_any, stop_when, let_value_with_stop_source, outer)
  bool inner_stopped = false;
  std::vector<MNode*> regs;     // callbacks registered on this source, in registration order
  // per-kind state
  int ndone = 0; bool have_bad = false; Res bad; Res r0, r1; bool delivered = false; Res saved;
};
struct Model {
  std::vector<MLeaf> leaves;
  std::vector<std::unique_ptr<MNode>> arena;
  MNode* root = nullptr; MNode* outer = nullptr;
  bool completed = false; Res result;
  std::function<char(int)> outcome_of;   // leaf id -> configured outcome (valid once started)
  std::function<Mode(int)> mode_of;
  std::vector<Exp> sched_exp;            // expectations for schedule() operations, in start order

  MNode* make(const Tree* t, MNode* parent, int idx) {
    arena.push_back(std::make_unique<MNode>());
    MNode* n = arena.back().get(); n->t = t; n->parent = parent; n->idx = idx;
    return n;
  }
  static bool is_source(int k) { return k == WALL || k == WALLR || k == WANY || k == SWHEN || k == LVSS; }
  static bool tok_stopped(MNode* tok) { return tok && tok->inner_stopped; }
  void reg(MNode* src, MNode* who) { if (src) src->regs.push_back(who); }
  void unreg(MNode* src, MNode* who) { if (!src) return; for (auto& x : src->regs) if (x == who) x = nullptr; }

  void complete(MNode* n, Res r) {
    n->running = false;
    if (n->t->kind == LEAF || is_source(n->t->kind)) unreg(n->tok, n);
    if (!n->parent) { completed = true; result = r; return; }
    child_done(n->parent, n->idx, r);
  }
  Exp child_exp(MNode* n, const Exp& e) {
    Exp c = e;
    switch (n->t->kind) {
      case ON: c.sched = 10 + n->t->id; break;
      case WITH_QUERY: c.sched = 30 + n->t->id; c.custom = 40 + n->t->id; break;
      case WITH_ALLOC: c.alloc = 50 + n->t->id; break;
      case UNSTOPPABLE: c.stop_possible = false; break;
      case ANY_SENDER: c.sched = -1; c.alloc = -1; c.custom = -1; break;  // declared with no extra receiver queries
      case WALL: case WALLR: case WANY: case SWHEN: case LVSS: c.stop_possible = true; break;
      default: break;
    }
    return c;
  }
  // the token a node hands to its children
  MNode* child_tok(MNode* n) {
    if (n->t->kind == UNSTOPPABLE) return nullptr;
    if (is_source(n->t->kind)) return n;
    return n->tok;
  }
  void start_kid(MNode* n, int i) {
    MNode* k = make(&n->t->kids[i], n, i);
    n->kids[i] = k;
    start(k, child_tok(n), child_exp(n, n->exp));
  }
  bool model_thrown = false;
  bool thrower(MNode* n) { if (n->t->id != g_throw_node || model_thrown) return false; model_thrown = true; return true; }
  Res fault(MNode* n) { return Res{'E', 900 + n->t->id}; }
  Res leaf_res(int leaf, char ch) { return ch == 'V' ? Res{'V', leaf + 1} : ch == 'E' ? Res{'E', leaf + 1} : Res{'D', 0}; }

  void start(MNode* n, MNode* tok, Exp exp) {
    n->running = true; n->tok = tok; n->exp = exp;
    const Tree& t = *n->t;
    bool stopped = tok_stopped(tok);
    switch (t.kind) {
      case LEAF: {
        MLeaf& L = leaves[t.leaf];
        L.started = true; int nth = L.starts++;
        L.exp = exp; L.exp_valid = true;
        if (stopped) { L.stop_at_start = true; }
        char ch = nth == 0 ? outcome_of(t.leaf) : 'V';
        Mode m = nth == 0 ? mode_of(t.leaf) : Mode::Inline;
        if (m == Mode::Inline) { complete(n, leaf_res(t.leaf, ch)); return; }
        if (m == Mode::Reactive && stopped) { complete(n, Res{'D', 0}); return; }
        L.pending = true;
        reg(tok, n);
        return;
      }
      case ON: sched_exp.push_back(exp); start_kid(n, 0); return;
      case WALL: case WALLR: case WANY: case SWHEN: case LVSS:
        // the stop callback on the receiver's token is registered first; it fires at once if stop was requested
        n->inner_stopped = stopped;
        reg(tok, n);
        start_kid(n, 0);
        if (t.kind != LVSS) start_kid(n, 1);   // (a child that completed inline may already have stopped the rest)
        return;
      case VARIANT:
        if (t.id % 2 == 0) start_kid(n, 0); else complete(n, Res{'V', 777});
        return;
      default:
        start_kid(n, 0);
        return;
    }
  }

  // stop is requested on source node s: its registered callbacks run in reverse registration order
  void request_stop(MNode* s) {
    if (s->inner_stopped) return;
    s->inner_stopped = true;
    for (int i = (int)s->regs.size() - 1; i >= 0; --i) {
      if (i >= (int)s->regs.size()) continue;
      MNode* c = s->regs[i];
      if (!c) continue;
      s->regs[i] = nullptr;
      if (!c->running) continue;
      if (c->t->kind == LEAF) {
        MLeaf& L = leaves[c->t->leaf];
        if (L.pending) {
          L.must_stop = true;
          if (mode_of(c->t->leaf) == Mode::Reactive && L.starts == 1) { L.pending = false; complete(c, Res{'D', 0}); }
        }
      } else {
        request_stop(c);   // a nested source chains the request to its own children
      }
    }
  }

  void child_done(MNode* n, int i, Res r) {
    const Tree& t = *n->t;
    bool stopped = tok_stopped(n->tok);
    switch (t.kind) {
      case THEN: if (r.ch == 'V') { if (thrower(n)) return complete(n, fault(n)); return complete(n, Res{'V', r.v + 100}); } return complete(n, r);
      case UPON_ERROR: if (r.ch == 'E') { if (thrower(n)) return complete(n, fault(n)); return complete(n, Res{'V', 500 + t.id}); } return complete(n, r);
      case UPON_DONE: if (r.ch == 'D') { if (thrower(n)) return complete(n, fault(n)); return complete(n, Res{'V', 600 + t.id}); } return complete(n, r);
      case MATDEMAT: case UNSTOPPABLE: case ON: case INTO_VAR: case LVSS: case LVST: case WITH_QUERY: case WITH_ALLOC: case ALLOCATE:
      case ANY_SENDER: case LET_VALUE_WITH: case VARIANT:
        return complete(n, r);
      case DONE_OPT: if (r.ch == 'D') return complete(n, Res{'V', -7}); return complete(n, r);
      case VIA:  // finally(source, schedule(s)): the hop always succeeds with the tag scheduler
        sched_exp.push_back(n->exp);
        return complete(n, r);
      case LETV:
        if (i == 0) { if (r.ch != 'V') return complete(n, r); if (thrower(n)) return complete(n, fault(n)); n->saved = r; return start_kid(n, 1); }
        if (r.ch == 'V') return complete(n, Res{'V', n->saved.v * 1000 + r.v});
        return complete(n, r);
      case LETE:
        if (i == 0) { if (r.ch != 'E') return complete(n, r); if (thrower(n)) return complete(n, fault(n)); return start_kid(n, 1); }
        return complete(n, r);
      case LETD:
        if (i == 0) { if (r.ch != 'D') return complete(n, r); if (thrower(n)) return complete(n, fault(n)); return start_kid(n, 1); }
        return complete(n, r);
      case SEQ:
        if (i == 0) { if (r.ch != 'V') return complete(n, r); return start_kid(n, 1); }
        return complete(n, r);
      case FIN:
        if (i == 0) { n->saved = r; return start_kid(n, 1); }
        if (r.ch == 'V') return complete(n, n->saved);
        return complete(n, r);
      case REPEAT:
        if (r.ch != 'V') return complete(n, r);
        if (++n->ndone >= 2) return complete(n, Res{'V', 42});
        return start_kid(n, 0);   // next iteration: the child is connected and started again
      case RETRY:
        if (i == 0) { if (r.ch != 'E') return complete(n, r); if (thrower(n)) return complete(n, fault(n)); return start_kid(n, 1); }
        if (r.ch == 'V') return start_kid(n, 0);   // relaunch the source
        return complete(n, r);
      case WALL: case WALLR: {
        (i == 0 ? n->r0 : n->r1) = r;
        ++n->ndone;
        if (r.ch != 'V' && !n->have_bad) { n->have_bad = true; n->bad = r; request_stop(n); }
        // (request_stop may have completed the other child re-entrantly, which then delivered the result)
        if (n->ndone < 2 || n->delivered) return;
        n->delivered = true;
        // when_all checks the receiver's stop token when it delivers: a requested stop turns the result into
        // done; when_all_range does not look at it
        if (t.kind == WALL && stopped) return complete(n, Res{'D', 0});
        if (n->have_bad) return complete(n, n->bad);
        return complete(n, Res{'V', n->r0.v * 1000 + n->r1.v});
      }
      case WANY: {
        ++n->ndone;
        if (n->ndone == 1) { n->bad = r; request_stop(n); }
        if (n->ndone < 2 || n->delivered) return;
        n->delivered = true;
        // documented: the result of the first sender to complete, even if done or error. When the receiver's stop
        // token has been triggered meanwhile the embedded when_all reports done instead of a first error.
        if (stopped && n->bad.ch == 'E') return complete(n, Res{'D', 0});
        return complete(n, n->bad);
      }
      case SWHEN: {
        if (i == 0) n->r0 = r;
        ++n->ndone;
        request_stop(n);
        if (n->ndone < 2 || n->delivered) return;
        n->delivered = true;
        return complete(n, n->r0);
      }
    }
    std::abort();
  }
};

// ---- driver -------------------------------------------------------------------------------------------------
struct Top final : ex::rcv_base {
  inplace_stop_source* src; int count = 0; Res res; int ctx = -1; bool in_start = false, signalled_in_start = false;
  void sig(Res r) noexcept {
    ++count; res = r; ctx = ex::g->cur_ctx; signalled_in_start = in_start;
    if (count > 1) vmcrt::fail("C01", "completed-twice", ("outer receiver signalled twice; case: " + ex::g->trace).c_str());
  }
  void value(int v) noexcept override { sig(Res{'V', v}); }
  void error(std::exception_ptr e) noexcept override { sig(Res{'E', kit::error_tag(e)}); }
  void done() noexcept override { sig(Res{'D', 0}); }
  inplace_stop_token stok() const noexcept override { return src->get_token(); }
  bool stop_possible() const noexcept override { return true; }
  int sched_tag() const noexcept override { return 7; }
  int alloc_tag() const noexcept override { return 8; }
  int custom() const noexcept override { return 9; }
};

struct Options { bool stop_events = true; bool faults = false; bool reactive = true; bool check_result = true; bool check_queries = true; bool known_lvss = false; bool ctx_check = false; bool trace_notes = false; bool lvalue = false; };

std::string g_case;
void fail(const char* props, const char* key, const std::string& msg) { vmcrt::fail(props, key, (msg + " | case: " + g_case + " | events: " + ex::g->trace).c_str()); }

void run_tree(Tree t, const Options& opt) {
  int nodes = 0, nleaves = 0;
  number(t, nodes, nleaves);
  // which callable throws?
  g_throw_node = -1; g_thrown = false;
  if (opt.faults) {
    std::vector<int> callables;
    // Factories that run at connect time (let_value_with, let_value_with_stop_source/token) are offered as throwers only
    // where they are connected eagerly from the outer connect(): the exception then escapes connect(), which the driver
    // handles.  Below a lazily connected position (successor of let_*/sequence/finally, trigger of retry_when) the parent
    // turns the throw into set_error; that path is covered model-free by expr_cfault (a leaf's connect throws there).
    // (EX_NX: they may sit below an rvalue connect that is declared noexcept there, so they are never offered.)
    std::function<void(const Tree&, bool)> walk2 = [&](const Tree& x, bool eager) {
      bool at_connect = x.kind == LET_VALUE_WITH || x.kind == LVSS || x.kind == LVST;
      if (has_callable(x.kind) && !(at_connect && (EX_NX || !eager))) callables.push_back(x.id);
      for (size_t i = 0; i < x.kids.size(); ++i) {
        bool lazy_kid = (i == 1 && (x.kind == LETV || x.kind == LETE || x.kind == LETD || x.kind == SEQ || x.kind == FIN || x.kind == RETRY)) || at_connect ||
                        x.kind == WANY ||  // (when_any is built on let_value_with_stop_source: its children are connected at start)
                        x.kind == ON;      // (on(s, x) = sequence(schedule(s), x): x is connected when the schedule completes)
        walk2(x.kids[i], eager && !lazy_kid);
      }
    };
    std::function<void(const Tree&)> walk = [&](const Tree& x) { walk2(x, true); };
    walk(t);
    int c = vmc::choose((int)callables.size() + 1);
    if (c > 0) g_throw_node = callables[c - 1];
  }
  ex::Ctx ctx; ex::g = &ctx;
  ctx.leaves.resize(nleaves);
  ctx.defer_sched = opt.ctx_check;   // scheduler hops become events that run on the scheduler's context tag
  ctx.lvalue_connect = opt.lvalue;
  // leaves below a let_value_with_stop_source are not offered the Reactive mode here: a child that completes inside
  // its stop callback makes let_value_with_stop_source destroy its own stop source while that source is still
  // running request_stop() (recorded finding, demonstrated by the dedicated harness expr_known_lvss)
  std::vector<char> under_lvss(nleaves, 0);
  {
    std::function<void(const Tree&, bool)> walk = [&](const Tree& x, bool u) { if (x.kind == LEAF) under_lvss[x.leaf] = u; for (auto& k : x.kids) walk(k, u || x.kind == LVSS); };
    walk(t, false);
  }
  ctx.configure = [&](ex::LeafInfo& L) {
    L.outcome = "VED"[vmc::choose(3)];
    if (opt.known_lvss) { L.mode = Mode::Reactive; return; }
    int m = vmc::choose(opt.reactive && !under_lvss[L.id] ? 3 : 2);
    L.mode = m == 0 ? Mode::Inline : m == 1 ? Mode::Deferred : Mode::Reactive;
  };
  g_case = show(t) + (g_throw_node >= 0 ? " throw@" + std::to_string(g_throw_node) : "");
  Model model; model.leaves.resize(nleaves);
  model.outcome_of = [&](int id) { return ctx.leaf(id).outcome; };
  model.mode_of = [&](int id) { return ctx.leaf(id).mode; };
  {
    auto* src = new inplace_stop_source();
    Top top; top.src = src;
    bool stop_sent = false;
    auto compare = [&](const char* when) {
      if (opt.ctx_check) return;   // scheduler hops are separate events there: the inline-hop reference does not apply
      // leaves: started set, pending set, stop observations
      for (int i = 0; i < nleaves; ++i) {
        auto& L = ctx.leaf(i); auto& M = model.leaves[i];
        if ((L.starts > 0) != M.started || L.starts != M.starts)
          fail("C05,C01", "leaf-start", std::string(when) + ": leaf L" + std::to_string(i) + " started " + std::to_string(L.starts) + " times, reference says " + std::to_string(M.starts));
        bool pend = L.starts > L.completions;
        if (pend != M.pending) fail("C05,C01", "leaf-pending", std::string(when) + ": leaf L" + std::to_string(i) + " pending=" + std::to_string(pend) + ", reference says " + std::to_string(M.pending));
        if (M.must_stop && pend && !L.stop_seen) fail("C04", "stop-not-delivered", std::string(when) + ": running leaf L" + std::to_string(i) + " did not observe the stop request");
        if (M.stop_at_start && !L.stop_at_start) fail("C04", "started-unstopped", std::string(when) + ": leaf L" + std::to_string(i) + " was started after the stop request with a token that is not stopped");
        if (opt.check_queries && M.exp_valid && L.starts > 0) {
          if (L.seen.sched_tag != M.exp.sched) fail("C12", "query-scheduler", "leaf L" + std::to_string(i) + " sees scheduler " + std::to_string(L.seen.sched_tag) + ", expected " + std::to_string(M.exp.sched));
          if (L.seen.alloc_tag != M.exp.alloc) fail("C12", "query-allocator", "leaf L" + std::to_string(i) + " sees allocator " + std::to_string(L.seen.alloc_tag) + ", expected " + std::to_string(M.exp.alloc));
          if (L.seen.custom != M.exp.custom) fail("C12", "query-custom", "leaf L" + std::to_string(i) + " sees custom query value " + std::to_string(L.seen.custom) + ", expected " + std::to_string(M.exp.custom));
          if (L.seen.stop_possible != M.exp.stop_possible) fail("C12,C04", "query-stop-token", "leaf L" + std::to_string(i) + " stop_possible=" + std::to_string(L.seen.stop_possible) + ", expected " + std::to_string(M.exp.stop_possible));
        }
      }
      if ((top.count > 0) != model.completed) fail("C01,C05", "completion", std::string(when) + ": outer receiver completed=" + std::to_string(top.count) + ", reference says " + std::to_string(model.completed));
      if (top.count && opt.check_result && !(top.res == model.result)) fail("C05", "result", std::string(when) + ": result " + rstr(top.res) + ", reference says " + rstr(model.result));
    };
    bool connect_threw = false;
    try {
      dyn d = build(t);
      using top_op_t = decltype(unifex::connect(d, ex::rref{&top}));
      std::unique_ptr<top_op_t> op(new top_op_t(unifex::connect(d, ex::rref{&top})));
      static Tree outer_tree; outer_tree.kind = -1;
      model.outer = model.make(&outer_tree, nullptr, 0);
      model.root = model.make(&t, nullptr, 0);
      if (opt.stop_events && vmc::choose(2)) { src->request_stop(); stop_sent = true; ctx.trace += "S "; }
      top.in_start = true;
      unifex::start(*op);
      top.in_start = false;
      model.outer->inner_stopped = stop_sent;
      model.start(model.root, model.outer, Exp{});
      compare("after start");
      while (true) {
        std::vector<int> live;
        for (int i = 0; i < (int)ctx.pending.size(); ++i) if (ctx.pending[i].alive) live.push_back(i);
        if (live.empty()) break;
        int n = (int)live.size() + ((opt.stop_events && !stop_sent) ? 1 : 0);
        int c = vmc::choose(n);
        if (c == (int)live.size()) {
          src->request_stop(); stop_sent = true; ctx.trace += "S ";
          if (!opt.ctx_check) model.request_stop(model.outer);
          compare("after stop");
          continue;
        }
        auto& p = ctx.pending[live[c]];
        p.alive = false;
        int leaf_id = p.leaf;
        auto fire = std::move(p.fire);
        { int save = ctx.cur_ctx; ctx.cur_ctx = p.sched_ctx >= 0 ? p.sched_ctx : 0; fire(); ctx.cur_ctx = save; }
        if (leaf_id < 0) { compare("after scheduler hop"); continue; }
        // mirror in the model: find the leaf node and complete it
        MNode* ml = nullptr;
        for (auto& up : model.arena) if (up->t->kind == LEAF && up->t->leaf == leaf_id && up->running) ml = up.get();
        if (opt.ctx_check) continue;
        if (!ml) fail("!", "harness", "model has no running leaf for the fired event");
        model.leaves[leaf_id].pending = false;
        model.complete(ml, model.leaf_res(leaf_id, ctx.leaf(leaf_id).outcome));
        compare("after completion");
      }
      // quiescent: every started leaf has completed, so the composite must have completed (no lost completion)
      if (top.count != 1) fail("C01", "lost-completion", "quiescent (all children completed) but the outer receiver was signalled " + std::to_string(top.count) + " times");
      // the receiver's stop source dies before the operation state: a late deregistration would be a use-after-free
      if (opt.ctx_check) {
        // via/typed_via deliver on the scheduler's context; on() starts its sender there
        if (t.kind == VIA && top.ctx != 10 + t.id) fail("C11", "via-context", "via() completed on context " + std::to_string(top.ctx) + " instead of its scheduler's " + std::to_string(10 + t.id));
        if (t.kind == ON) {
          // the first leaf to be started is started from the hop of its nearest enclosing on()
          std::vector<int> nearest_on(nleaves, -1);
          std::function<void(const Tree&, int)> walk = [&](const Tree& x, int on_id) { if (x.kind == LEAF) nearest_on[x.leaf] = on_id; for (auto& k : x.kids) walk(k, x.kind == ON ? x.id : on_id); };
          walk(t, -1);
          for (int i = 0; i < nleaves; ++i) if (ctx.leaf(i).order_started == 0 && ctx.leaf(i).start_ctx != 10 + nearest_on[i])
            fail("C11", "on-context", "on() started its sender on context " + std::to_string(ctx.leaf(i).start_ctx) + " instead of its scheduler's " + std::to_string(10 + nearest_on[i]));
        }
      }
      delete src; src = nullptr;
      op.reset();
    } catch (const kit::tagged_error& e) {
      connect_threw = true;
      // only a connect-time factory (let_value_with / let_value_with_stop_*) may let the injected fault escape connect()
      if (e.tag != 900 + g_throw_node) fail("C05,C02", "foreign-exception", "unexpected exception escaped");
      if (top.count != 0) fail("C01", "throw-and-complete", "an exception escaped although the receiver had been completed");
    }
    if (src) delete src;
    for (int i = 0; i < nleaves; ++i) if (ctx.leaf(i).ops_alive != 0) fail("C02", "leaf-op-leak", "leaf L" + std::to_string(i) + " operation states leaked or destroyed twice: live=" + std::to_string(ctx.leaf(i).ops_alive));
    if (ctx.sched_ops_alive != 0) fail("C02", "sched-op-leak", "schedule() operation states leaked: " + std::to_string(ctx.sched_ops_alive));
    for (auto& kv : ctx.ledgers) if (kv.second.live != 0) fail("C02,C12", "alloc-leak", "allocator " + std::to_string(kv.first) + " has " + std::to_string(kv.second.live) + " live blocks after the operation was destroyed");
    if (opt.check_queries && !connect_threw && !opt.ctx_check) {
      if (ctx.sched_seen.size() != model.sched_exp.size()) fail("C12,C05", "sched-count", "number of schedule() operations started differs from the reference");
      for (size_t i = 0; i < ctx.sched_seen.size() && i < model.sched_exp.size(); ++i) {
        if (ctx.sched_seen[i].custom != model.sched_exp[i].custom) fail("C12", "sched-query-custom", "a schedule() operation sees custom query value " + std::to_string(ctx.sched_seen[i].custom) + ", expected " + std::to_string(model.sched_exp[i].custom));
        if (ctx.sched_seen[i].alloc_tag != model.sched_exp[i].alloc) fail("C12", "sched-query-allocator", "a schedule() operation sees allocator " + std::to_string(ctx.sched_seen[i].alloc_tag) + ", expected " + std::to_string(model.sched_exp[i].alloc));
      }
    }
    // C20: in trace mode the note is the canonical observation trace of this case (compared across build configurations)
    if (opt.trace_notes) vmc::note(g_case + "|" + ctx.trace + "|" + (connect_threw ? "X" : rstr(top.res)) + "@" + std::to_string(top.ctx));
    else vmc::note(std::string(kname[t.kind]) + ":" + (connect_threw ? "X" : rstr(top.res)));
#if !UNIFEX_NO_ASYNC_STACKS
    if (unifex::tryGetCurrentAsyncStackRoot() != nullptr) fail("C20", "async-stack-root", "an async stack root is still installed on this thread after the operation completed");
#endif
  }
  ex::g = nullptr;
}

// ---- connect-time faults: the n-th connect() of one leaf throws ------------------------------------------------------
// Model-free oracle: either the exception escapes the outer connect() (nothing was started, nothing may be signalled), or
// the adaptor that connects that child lazily (sequence, let_*, finally, retry/repeat ...) turns it into exactly one
// completion; in both cases every operation state that was constructed is destroyed exactly once, nothing is leaked and
// nothing is touched after destruction (ASan).
void run_tree_connect_fault(Tree t) {
  int nodes = 0, nleaves = 0;
  number(t, nodes, nleaves);
  g_throw_node = -1; g_thrown = false;
  ex::Ctx ctx; ex::g = &ctx;
  ctx.leaves.resize(nleaves);
  ctx.throw_connect_leaf = vmc::choose(nleaves);
  ctx.throw_connect_nth = vmc::choose(2);
  ctx.configure = [&](ex::LeafInfo& L) { L.outcome = "VED"[vmc::choose(3)]; L.mode = vmc::choose(2) ? Mode::Deferred : Mode::Inline; };
  g_case = show(t) + " connect-throw@L" + std::to_string(ctx.throw_connect_leaf) + "#" + std::to_string(ctx.throw_connect_nth);
  {
    auto* src = new inplace_stop_source();
    Top top; top.src = src;
    bool connect_threw = false;
    try {
      dyn d = build(t);
      using top_op_t = decltype(unifex::connect(d, ex::rref{&top}));
      std::unique_ptr<top_op_t> op(new top_op_t(unifex::connect(d, ex::rref{&top})));
      top.in_start = true;
      unifex::start(*op);
      top.in_start = false;
      while (true) {
        std::vector<int> live;
        for (int i = 0; i < (int)ctx.pending.size(); ++i) if (ctx.pending[i].alive) live.push_back(i);
        if (live.empty()) break;
        auto& p = ctx.pending[live[vmc::choose((int)live.size())]];
        p.alive = false;
        auto fire = std::move(p.fire);
        fire();
      }
      if (top.count != 1) fail("C01", "lost-completion", "quiescent (all children completed) but the outer receiver was signalled " + std::to_string(top.count) + " times");
      delete src; src = nullptr;
      op.reset();
    } catch (const kit::tagged_error& e) {
      connect_threw = true;
      if (e.tag != 950 + ctx.throw_connect_leaf) fail("C05,C02", "foreign-exception", "unexpected exception escaped");
      if (top.count != 0) fail("C01", "throw-and-complete", "an exception escaped although the receiver had been completed");
    }
    if (src) delete src;
    for (int i = 0; i < nleaves; ++i) if (ctx.leaf(i).ops_alive != 0) fail("C02", "leaf-op-leak", "leaf L" + std::to_string(i) + " operation states leaked or destroyed twice: live=" + std::to_string(ctx.leaf(i).ops_alive));
    if (ctx.sched_ops_alive != 0) fail("C02", "sched-op-leak", "schedule() operation states leaked: " + std::to_string(ctx.sched_ops_alive));
    for (auto& kv : ctx.ledgers) if (kv.second.live != 0) fail("C02,C12", "alloc-leak", "allocator " + std::to_string(kv.first) + " has " + std::to_string(kv.second.live) + " live blocks after the operation was destroyed");
    vmc::note(std::string(kname[t.kind]) + ":" + (connect_threw ? "X" : rstr(top.res)));
  }
  ex::g = nullptr;
}

// ---- tree enumeration: root kind x child kinds (depth 2) -----------------------------------------------------
Tree leaf_tree() { return Tree{LEAF}; }
Tree make_node(int kind, std::vector<Tree> kids) { Tree t; t.kind = kind; t.kids = std::move(kids); return t; }

// picks a tree with vmc::choose: root from `roots`, each child from `inner` (LEAF included), grandchildren leaves
Tree choose_tree(const std::vector<int>& roots, const std::vector<int>& inner, int depth) {
  std::function<Tree(const std::vector<int>&, int)> pick = [&](const std::vector<int>& alphabet, int d) -> Tree {
    int k = alphabet[vmc::choose((int)alphabet.size())];
    if (k == LEAF || d == 0) return leaf_tree();
    std::vector<Tree> kids;
    for (int i = 0; i < karity(k); ++i) kids.push_back(d - 1 == 0 ? leaf_tree() : pick(inner, d - 1));
    return make_node(k, std::move(kids));
  };
  return pick(roots, depth);
}
std::vector<int> all_kinds() { std::vector<int> v; for (int k = THEN; k < NKIND; ++k) v.push_back(k); return v; }
}  // namespace

// depth 1: every adaptor over leaves (all outcomes / modes / event orders / stop positions / one throwing callable)
VMC_SEQ_HARNESS(expr_d1, "C01,C02,C04,C05,C12") {
  Options o; o.faults = true; o.trace_notes = vmcrt::arg(0, 0) != 0; o.lvalue = vmcrt::arg(1, 0) != 0;
  run_tree(choose_tree(all_kinds(), {LEAF}, 1), o);
}
// depth 2: root = arg0 (one adaptor kind per run so that the work splits over checks), children over the
// full alphabet, leaves below
VMC_SEQ_HARNESS(expr_d2, "C01,C02,C04,C05,C12") {
  int root = vmcrt::arg(0, THEN);
  Options o; o.faults = vmcrt::arg(1, 0) != 0; o.reactive = vmcrt::arg(2, 1) != 0; o.stop_events = vmcrt::arg(3, 1) != 0; o.trace_notes = vmcrt::arg(4, 0) != 0;
  o.lvalue = vmcrt::arg(5, 0) != 0;
  std::vector<int> inner = all_kinds(); inner.insert(inner.begin(), LEAF);
  run_tree(choose_tree({root}, inner, 2), o);
}

// connect-time faults over the same trees (depth 1: arg0 = 0, depth 2 with root arg0 otherwise)
VMC_SEQ_HARNESS(expr_cfault, "C02,C01,C05") {
  int root = vmcrt::arg(0, 0);
  std::vector<int> inner = all_kinds(); inner.insert(inner.begin(), LEAF);
  if (root == 0) run_tree_connect_fault(choose_tree(all_kinds(), {LEAF}, 1));
  else run_tree_connect_fault(choose_tree({root}, inner, 2));
}

// known finding: let_value_with_stop_source over a child that completes inside its stop callback
VMC_SEQ_HARNESS(expr_known_lvss, "C02,C04") {
  Options o; o.known_lvss = true;
  Tree t = make_node(FIN, {make_node(LVSS, {leaf_tree()}), leaf_tree()});
  run_tree(t, o);
}

// C11: via(X, s) completes on s's context, on(s, X) starts X there; scheduler hops are separate events here
VMC_SEQ_HARNESS(expr_ctx, "C11,C05,C01") {
  int root = vmcrt::arg(0, VIA);
  Options o; o.ctx_check = true; o.reactive = false;
  std::vector<int> inner = all_kinds(); inner.insert(inner.begin(), LEAF);
  run_tree(choose_tree({root}, inner, 2), o);
}
