#define TRACE_PART 3
#include "trace.cpp"
