// C06 — execution contexts: every scheduled item runs exactly once, on the context, none lost; FIFO; join
#include <vmc_main.hpp>
#include <probes.hpp>
#include <unifex/manual_event_loop.hpp>
#include <unifex/single_thread_context.hpp>
#include <unifex/static_thread_pool.hpp>
#include <unifex/new_thread_context.hpp>
#include <unifex/timed_single_thread_context.hpp>
#include <unifex/trampoline_scheduler.hpp>
#include <unifex/inline_scheduler.hpp>
#include <unifex/any_scheduler.hpp>
#include <unifex/schedule_with_subscheduler.hpp>
using namespace unifex;

namespace {
struct Clock { int t = 0; int tick() { return ++t; } };
struct Item {
  int count = 0; char how = '?'; int thread = -2; int ran_at = 0;
  int start_begin = 0, start_end = 0;
};
struct ItemRcv {
  Item* it; Clock* k; inplace_stop_token tok{};
  void done(char h) noexcept {
    vmc::publish();
    ++it->count; it->how = h; it->thread = vmc::self(); it->ran_at = k->tick();
    vmc::check(it->count == 1, "C06,C01", "ran-twice", "a scheduled item completed more than once");
  }
  template <class... A> void set_value(A&&...) noexcept { done('V'); }
  void set_done() noexcept { done('D'); }
  template <class E> void set_error(E&&) noexcept { done('E'); }
  friend inplace_stop_token tag_invoke(tag_t<get_stop_token>, const ItemRcv& r) noexcept { return r.tok; }
};
// FIFO, judged linearizability-style: a before b whenever a's start() returned before b's start() was called
void check_fifo(Item* items, int n) {
  for (int a = 0; a < n; ++a) for (int b = 0; b < n; ++b)
    if (a != b && items[a].start_end && items[b].start_begin && items[a].start_end < items[b].start_begin && items[a].count && items[b].count)
      vmc::check(items[a].ran_at < items[b].ran_at, "C06", "fifo", "single-threaded loop ran items out of enqueue order");
}
template <class Sched>
void producer2(Sched sched, Item* items, int base, int n, Clock& k, inplace_stop_token tok) {
  auto op0 = unifex::connect(schedule(sched), ItemRcv{&items[base], &k, tok});
  auto op1 = unifex::connect(schedule(sched), ItemRcv{&items[base + 1], &k, tok});
  items[base].start_begin = k.tick(); unifex::start(op0); items[base].start_end = k.tick();
  if (n > 1) { items[base + 1].start_begin = k.tick(); unifex::start(op1); items[base + 1].start_end = k.tick(); }
  vmc::wait_until([&] { return items[base].count > 0 && (n < 2 || items[base + 1].count > 0); });
}
}  // namespace

// manual_event_loop: producer A (2 items) ∥ producer B (1 item) ∥ run() ∥ stop() after the items were accepted
VMC_HARNESS(sch_loop, "C06,C01") {
  manual_event_loop loop; Clock k; Item items[4]; inplace_stop_source never;
  int runner = -1;
  std::thread r([&] { runner = vmc::self(); loop.run(); });
  std::thread pb([&] { producer2(loop.get_scheduler(), items, 2, 1, k, never.get_token()); });
  producer2(loop.get_scheduler(), items, 0, 2, k, never.get_token());
  pb.join();
  loop.stop();
  r.join();
  for (int i = 0; i < 3; ++i) {
    vmc::check(items[i].count == 1 && items[i].how == 'V', "C06,C01", "item-lost", "scheduled item did not run exactly once with value");
    vmc::check(items[i].thread == runner, "C06", "wrong-thread", "item ran on a thread that does not belong to the context");
  }
  check_fifo(items, 3);
  vmc::note(std::to_string(items[2].ran_at < items[0].ran_at));
}

// stop() racing enqueue: an item accepted before stop() was called must still run; run() must return
VMC_HARNESS(sch_loop_stop, "C06,C01") {
  manual_event_loop loop; Clock k; Item it; inplace_stop_source never;
  std::thread r([&] { loop.run(); });
  auto op = unifex::connect(schedule(loop.get_scheduler()), ItemRcv{&it, &k, never.get_token()});
  int stop_called = 0;
  std::thread s([&] { stop_called = k.tick(); loop.stop(); });
  it.start_begin = k.tick(); unifex::start(op); it.start_end = k.tick();
  s.join(); r.join();
  if (it.start_end < stop_called) vmc::check(it.count == 1, "C06,C01", "item-lost", "item accepted before stop() was lost");
  vmc::note(it.count ? "ran" : "dropped");
}

// receiver stop token requested before the item runs: done instead of value
VMC_HARNESS(sch_loop_token, "C06,C01") {
  manual_event_loop loop; Clock k; Item it; inplace_stop_source src;
  auto op = unifex::connect(schedule(loop.get_scheduler()), ItemRcv{&it, &k, src.get_token()});
  unifex::start(op);
  int stop_done = 0;
  std::thread s([&] { src.request_stop(); stop_done = k.tick(); });
  std::thread r([&] { loop.run(); });
  vmc::wait_until([&] { return it.count > 0; });
  s.join(); loop.stop(); r.join();
  vmc::check(it.count == 1, "C06,C01", "item-lost", "item did not complete exactly once");
  if (stop_done && stop_done < it.ran_at) vmc::check(it.how == 'D', "C06", "stop-ignored", "stop was requested before the item ran but it completed with value");
  vmc::note(std::string(1, it.how));
}

// single_thread_context: two producers; the destructor joins its thread
VMC_HARNESS(sch_single, "C06,C01") {
  Clock k; Item items[4]; inplace_stop_source never;
  int ctx_thread = -1;
  {
    single_thread_context ctx;
    std::thread pb([&] { producer2(ctx.get_scheduler(), items, 2, 1, k, never.get_token()); });
    producer2(ctx.get_scheduler(), items, 0, 2, k, never.get_token());
    pb.join();
  }
  for (int i = 0; i < 3; ++i) vmc::check(items[i].count == 1 && items[i].how == 'V', "C06,C01", "item-lost", "scheduled item did not run exactly once");
  vmc::check(items[0].thread == items[1].thread && items[1].thread == items[2].thread && items[0].thread != vmc::self(), "C06", "wrong-thread", "items did not run on the context's thread");
  check_fifo(items, 3);
  vmc::note("ok");
}

// static_thread_pool(arg0 workers): producers enqueue while workers go idle / wake up; destructor joins.
// arg1: number of extra producer threads (each 1 item); main schedules 2 items
VMC_HARNESS(sch_pool, "C06,C01") {
  int workers = vmcrt::arg(0, 1), extra = vmcrt::arg(1, 1);
  Clock k; Item items[6]; inplace_stop_source never;
  int main_id = vmc::self();
  {
    static_thread_pool pool(workers);
    auto sched = pool.get_scheduler();
    std::vector<std::thread> ps;
    for (int e = 0; e < extra; ++e) ps.emplace_back([&, e] { producer2(sched, items, 2 + e, 1, k, never.get_token()); });
    producer2(sched, items, 0, 2, k, never.get_token());
    for (auto& t : ps) t.join();
  }
  for (int i = 0; i < 2 + extra; ++i) {
    vmc::check(items[i].count == 1 && items[i].how == 'V', "C06,C01", "item-lost", "item accepted by the pool did not run exactly once");
    vmc::check(items[i].thread != main_id && items[i].thread >= 0, "C06", "wrong-thread", "pool item ran on a foreign thread");
  }
  vmc::note("ok");
}

// pool destructor (request_stop + join) racing an accepted item: accepted items still complete exactly once.
// arg0 = 0: the harness waits for the item before it destroys the pool; arg0 = 1: the pool is destroyed right after
// start() returned (the item has been accepted, the worker may be asleep, waking up, or between its try_pop scan and
// the blocking pop): the destructor must not return before the item ran.  arg1: number of workers.
VMC_HARNESS(sch_pool_stop, "C06,C01") {
  Clock k; Item it; inplace_stop_source never;
  bool at_once = vmcrt::arg(0, 0) != 0; int workers = vmcrt::arg(1, 1);
  {
    static_thread_pool pool(workers);
    auto op = unifex::connect(schedule(pool.get_scheduler()), ItemRcv{&it, &k, never.get_token()});
    unifex::start(op);
    if (!at_once) vmc::wait_until([&] { return it.count > 0; });
  }
  vmc::check(it.count == 1 && it.how == 'V', "C06,C01", "item-lost", "an item accepted by the pool before it was told to stop did not run");
  vmc::note("ok");
}

// new_thread_context: two operations, destructor joins every thread it created
VMC_HARNESS(sch_newthread, "C06,C01") {
  Clock k; Item items[2]; inplace_stop_source never;
  int main_id = vmc::self();
  {
    new_thread_context ctx;
    auto op0 = unifex::connect(schedule(ctx.get_scheduler()), ItemRcv{&items[0], &k, never.get_token()});
    auto op1 = unifex::connect(schedule(ctx.get_scheduler()), ItemRcv{&items[1], &k, never.get_token()});
    unifex::start(op0); unifex::start(op1);
    vmc::wait_until([&] { return items[0].count > 0 && items[1].count > 0; });
  }
  for (auto& it : items) {
    vmc::check(it.count == 1 && it.how == 'V', "C06,C01", "item-lost", "new_thread_context item did not run exactly once");
    vmc::check(it.thread != main_id, "C06", "wrong-thread", "new_thread_context item ran on the caller's thread");
  }
  vmc::check(items[0].thread != items[1].thread, "C06", "wrong-thread", "new_thread_context did not give each operation its own thread");
  vmc::note("ok");
}

// timed_single_thread_context used as a plain scheduler
VMC_HARNESS(sch_timed_plain, "C06,C01") {
  Clock k; Item items[4]; inplace_stop_source never;
  {
    timed_single_thread_context ctx;
    std::thread pb([&] { producer2(ctx.get_scheduler(), items, 2, 1, k, never.get_token()); });
    producer2(ctx.get_scheduler(), items, 0, 2, k, never.get_token());
    pb.join();
  }
  for (int i = 0; i < 3; ++i) vmc::check(items[i].count == 1 && items[i].how == 'V', "C06,C01", "item-lost", "timed context: scheduled item did not run exactly once");
  vmc::check(items[0].thread == items[1].thread && items[1].thread == items[2].thread && items[0].thread != vmc::self(), "C06", "wrong-thread", "items did not run on the context's thread");
  vmc::note("ok");
}


// FIFO with several items pending at once: the context's only thread is parked inside item 0 while the producer enqueues
// items 1..4 back to back (on the timed context all four read the same now(), so they tie on the due time), then item 0
// returns.  The loop must run 1,2,3,4 in that order.  arg0: 0 single_thread_context, 1 timed_single_thread_context
namespace {
struct ParkRcv {
  Item* it; Clock* k; bool* release;
  void set_value() noexcept { vmc::publish(); ++it->count; it->how = 'V'; it->thread = vmc::self(); it->ran_at = k->tick(); vmc::wait_until([r = release] { return *r; }); }
  void set_done() noexcept { ++it->count; it->how = 'D'; }
  template <class E> void set_error(E&&) noexcept { ++it->count; it->how = 'E'; }
  friend unstoppable_token tag_invoke(tag_t<get_stop_token>, const ParkRcv&) noexcept { return {}; }
};
template <class Ctx>
void fifo_many_body() {
  Clock k; Item items[5]; inplace_stop_source never; bool release = false;
  {
    Ctx ctx;
    auto sched = ctx.get_scheduler();
    auto op0 = unifex::connect(schedule(sched), ParkRcv{&items[0], &k, &release});
    unifex::start(op0);
    vmc::wait_until([&] { return items[0].count > 0; });   // the context thread is inside item 0 now
    auto op1 = unifex::connect(schedule(sched), ItemRcv{&items[1], &k, never.get_token()});
    auto op2 = unifex::connect(schedule(sched), ItemRcv{&items[2], &k, never.get_token()});
    auto op3 = unifex::connect(schedule(sched), ItemRcv{&items[3], &k, never.get_token()});
    auto op4 = unifex::connect(schedule(sched), ItemRcv{&items[4], &k, never.get_token()});
    unifex::start(op1); unifex::start(op2); unifex::start(op3); unifex::start(op4);
    release = true;
    vmc::wait_until([&] { return items[1].count && items[2].count && items[3].count && items[4].count; });
  }
  for (int i = 1; i < 5; ++i) vmc::check(items[i].count == 1 && items[i].how == 'V', "C06,C01", "item-lost", "scheduled item did not run exactly once");
  for (int i = 1; i < 4; ++i)
    if (!(items[i].ran_at < items[i + 1].ran_at))
      vmcrt::fail("C06", "fifo", ("items enqueued back to back while the loop was busy ran out of order: item " + std::to_string(i + 1) + " before item " + std::to_string(i)).c_str());
  vmc::note("ok");
}
}  // namespace
VMC_HARNESS(sch_fifo_many, "C06,C07") {
  if (vmcrt::arg(0, 0) == 0) fifo_many_body<single_thread_context>(); else fifo_many_body<timed_single_thread_context>();
}

// trampoline: chains of nested schedule() with depth limit d: never nests deeper than d, every deferred item
// runs before the outermost start() returns. sequential; chain length and depth are enumerated.
namespace {
struct TrampCtx { int depth = 0, max_depth = 0, ran = 0, total = 0; std::size_t limit = 1; bool outer_returned = false; bool late = false; };
struct TrampRcv;
struct TrampNode { TrampCtx* c; int remaining; };
struct TrampRcv {
  TrampNode n;
  void set_value() noexcept;
  void set_done() noexcept { ++n.c->ran; }
  template <class E> void set_error(E&&) noexcept { ++n.c->ran; }
  friend unstoppable_token tag_invoke(tag_t<get_stop_token>, const TrampRcv&) noexcept { return {}; }
};
using tramp_op = decltype(unifex::connect(schedule(std::declval<trampoline_scheduler&>()), std::declval<TrampRcv>()));
struct TrampOps { std::vector<std::unique_ptr<tramp_op>> ops; };
TrampOps* g_tramp_ops;
void TrampRcv::set_value() noexcept {
  TrampCtx* c = n.c;
  if (c->outer_returned) c->late = true;
  ++c->ran; ++c->depth; if (c->depth > c->max_depth) c->max_depth = c->depth;
  if (n.remaining > 0) {
    trampoline_scheduler s{c->limit};
    // branch: fan out two children at the first level to exercise the deferred list with several items
    int kids = (n.remaining % 2 == 0) ? 2 : 1;
    for (int i = 0; i < kids; ++i) {
      ++c->total;
      g_tramp_ops->ops.push_back(std::make_unique<tramp_op>(unifex::connect(schedule(s), TrampRcv{TrampNode{c, n.remaining - 1 - i > 0 ? n.remaining - 1 - i : 0}})));
      unifex::start(*g_tramp_ops->ops.back());
    }
  }
  --c->depth;
}
}  // namespace
VMC_SEQ_HARNESS(sch_tramp, "C06,C01") {
  int limit = 1 + vmc::choose(3);
  int len = 1 + vmc::choose(6);
  TrampCtx c; c.limit = (std::size_t)limit; c.total = 1;
  TrampOps ops; g_tramp_ops = &ops;
  trampoline_scheduler s{c.limit};
  auto op = unifex::connect(schedule(s), TrampRcv{TrampNode{&c, len}});
  unifex::start(op);
  c.outer_returned = true;
  vmc::check(c.ran == c.total, "C06,C01", "item-lost", "trampoline: deferred items had not all run when the outermost start() returned");
  vmc::check(!c.late, "C06", "item-late", "trampoline item ran after the outermost start() returned");
  vmc::check(c.max_depth <= limit, "C06", "too-deep", "trampoline nested deeper than its configured depth");
  vmc::note("limit" + std::to_string(limit) + " len" + std::to_string(len) + " depth" + std::to_string(c.max_depth) + " ran" + std::to_string(c.ran));
}

// inline scheduler + any_scheduler + schedule_with_subscheduler wrappers around a loop
VMC_HARNESS(sch_any, "C06,C18,C01") {
  manual_event_loop loop; Clock k; Item items[3]; inplace_stop_source never;
  int runner = -1;
  std::thread r([&] { runner = vmc::self(); loop.run(); });
  any_scheduler as = loop.get_scheduler();
  auto op0 = unifex::connect(schedule(as), ItemRcv{&items[0], &k, never.get_token()});
  auto op1 = unifex::connect(schedule_with_subscheduler(loop.get_scheduler()), ItemRcv{&items[1], &k, never.get_token()});
  auto op2 = unifex::connect(schedule(inline_scheduler{}), ItemRcv{&items[2], &k, never.get_token()});
  unifex::start(op0); unifex::start(op1);
  unifex::start(op2);
  vmc::check(items[2].count == 1 && items[2].thread == vmc::self(), "C06", "inline", "inline scheduler did not complete inline on the calling thread");
  vmc::wait_until([&] { return items[0].count > 0 && items[1].count > 0; });
  loop.stop(); r.join();
  vmc::check(items[0].thread == runner && items[1].thread == runner, "C06,C18", "wrong-thread", "wrapped scheduler did not run the item on the wrapped context");
  vmc::check(items[0].ran_at < items[1].ran_at, "C06", "fifo", "wrapped schedulers changed the enqueue order");
  vmc::check(as == any_scheduler{loop.get_scheduler()}, "C18", "equality", "any_scheduler compares unequal to a wrapper of the same scheduler");
  vmc::note("ok");
}
