// C19 — completion vs. cancellation races in the cancel wrappers (also feeds C02, C16, C01)
#include <vmc_main.hpp>
#include <probes.hpp>
#include <unifex/cancellable.hpp>
#include <unifex/create_raw_sender.hpp>
#include <unifex/create_basic_sender.hpp>
#include <unifex/detach_on_cancel.hpp>
#include <unifex/stop_on_request.hpp>
#include <unifex/canary.hpp>
#include <unifex/v2/async_manual_reset_event.hpp>
using namespace unifex;
using kit::RcvState; using kit::FreeCtl;

namespace {
// nested operation for cancellable<>: completes when the harness claims it, or from stop()
struct NCtx {
  std::atomic<void*> claim{nullptr};
  void (*finish)(void*) = nullptr;
  int started = 0, stops = 0, stop_after_complete = 0, stop_before_start = 0;
  bool completed = false;
  bool complete_in_start = false;
};
template <class Receiver>
struct NestedOp {
  Receiver r; NCtx* c;
  void start() noexcept {
    ++c->started;
    c->finish = [](void* p) {
      auto* self = static_cast<NestedOp*>(p);
      NCtx* ctx = self->c;
      if (try_complete(self)) { ctx->completed = true; unifex::set_value(std::move(self->r), 42); }
    };
    if (c->complete_in_start) { c->finish(this); return; }
    c->claim.store(this, std::memory_order_release);
  }
  void stop() noexcept {
    NCtx* ctx = c;
    ++ctx->stops;
    if (ctx->completed) ++ctx->stop_after_complete;
    if (!ctx->started) ++ctx->stop_before_start;
    if (!ctx->started || ctx->claim.exchange(nullptr, std::memory_order_acq_rel)) {
      if (try_complete(this)) { ctx->completed = true; unifex::set_done(std::move(r)); }
    }
  }
};
}  // namespace

// cancellable<raw sender>: {start() body ∥ completion on thread A ∥ stop request on thread B}; the receiver
// frees the heap-allocated operation on completion. args: [0]=StopsEarly(0/1) [1]=complete inside start (0/1)
// [2]=request stop before start (0/1)
template <bool Early>
static void canc_generic_body() {
  NCtx ctx; RcvState rs; FreeCtl ctl; inplace_stop_source src;
  rs.props = "C19,C01";
  ctx.complete_in_start = vmcrt::arg(1, 0) != 0;
  bool stop_first = vmcrt::arg(2, 0) != 0;
  auto snd = cancellable{create_raw_sender<int>([&ctx](auto&& receiver) {
    return NestedOp<std::decay_t<decltype(receiver)>>{std::forward<decltype(receiver)>(receiver), &ctx};
  }), std::bool_constant<Early>{}};
  auto* h = kit::make_heap_op(std::move(snd), kit::FreeingRcv<>{&rs, &ctl, src.get_token()}, ctl);
  if (stop_first) src.request_stop();
  bool no_completer = vmcrt::arg(3, 0) != 0;  // nobody completes naturally: the stop request must
  std::thread completer([&] {
    if (no_completer) return;
    vmc::wait_until([&] { return ctx.claim.v_.load() != nullptr || rs.count > 0; });
    if (void* p = ctx.claim.exchange(nullptr, std::memory_order_acq_rel)) ctx.finish(p);
  });
  std::thread stopper([&] { if (!stop_first) src.request_stop(); });
  unifex::start(h->op);
  completer.join(); stopper.join();
  if (no_completer) vmc::check(rs.count == 1 && rs.how == 'D', "C19,C04", "stop-ignored", "stop request on a running cancellable operation did not complete it with done");
  vmc::check(rs.count == 1, "C19,C01", "not-once", "receiver of a cancellable operation not completed exactly once");
  vmc::check(ctl.freed, "C19", "not-freed", "harness: op not freed");
  vmc::check(ctx.stops <= 1, "C19", "stop-twice", "user stop() hook ran more than once");
  vmc::check(ctx.stop_after_complete == 0, "C19", "stop-after-complete", "user stop() hook ran after the operation completed");
  if (!Early) vmc::check(ctx.stop_before_start == 0, "C19", "stop-before-start", "user stop() hook ran for an operation that was not started");
  if (Early && stop_first) vmc::check(ctx.started == 0 && rs.how == 'D', "C19", "skip-start", "skip-start mode: stop before start must call stop() instead of start()");
  vmc::note(rs.str() + " stops=" + std::to_string(ctx.stops));
}
VMC_HARNESS(canc_generic, "C19,C01,C02") { canc_generic_body<false>(); }
VMC_HARNESS(canc_generic_early, "C19,C01,C02") { canc_generic_body<true>(); }

// v2 async_manual_reset_event (built on cancellable): start ∥ set() ∥ stop; receiver frees the op
VMC_HARNESS(canc_evt2, "C19,C16,C02,C01") {
  v2::async_manual_reset_event evt;
  RcvState rs; FreeCtl ctl; inplace_stop_source src;
  rs.props = "C19,C16,C01";
  auto* h = kit::make_heap_op(evt.async_wait(), kit::FreeingRcv<>{&rs, &ctl, src.get_token()}, ctl);
  std::thread setter([&] { evt.set(); });
  std::thread stopper([&] { src.request_stop(); });
  unifex::start(h->op);
  setter.join(); stopper.join();
  vmc::check(rs.count == 1, "C19,C16,C01", "not-once", "async_wait not completed exactly once although the event was set");
  vmc::check(rs.how == 'V' || rs.how == 'D', "C19,C16", "bad-channel", "async_wait completed with an error");
  vmc::check(evt.ready(), "C16", "not-latched", "event not ready after set()");
  vmc::note(rs.str());
}

// create_basic_sender with a safe callback: start stores the callback; thread A fires it; thread B requests
// stop; a late callback after completion must be a no-op (fallback runs instead). arg0: 1 = unsafe callback
VMC_HARNESS(canc_basic, "C19,C01,C02") {
  RcvState rs; FreeCtl ctl; inplace_stop_source src;
  rs.props = "C19,C01";
  int stops = 0, callbacks = 0, fallbacks = 0;
  std::function<void()> fire;   // stored by the start event
  bool have_fire = false;
  auto snd = create_basic_sender<int>([&](auto event, auto& op) {
    if constexpr (event.is_start) {
      fire = safe_callback<>(op, [&fallbacks]() noexcept { ++fallbacks; });
      vmc::publish();   // (the hand-over of `fire` to the callback thread is the harness's business)
      have_fire = true;
    } else if constexpr (event.is_callback) {
      ++callbacks;
      op.set_value(7);
    } else if constexpr (event.is_stop) {
      ++stops;
      op.set_done();
    }
  });
  auto* h = kit::make_heap_op(std::move(snd), kit::FreeingRcv<>{&rs, &ctl, src.get_token()}, ctl);
  std::thread cb([&] {
    vmc::wait_until([&] { return have_fire || rs.count > 0; });
    if (have_fire) fire();
  });
  std::thread stopper([&] { src.request_stop(); });
  unifex::start(h->op);
  cb.join(); stopper.join();
  vmc::check(rs.count == 1, "C19,C01", "not-once", "create_basic_sender operation not completed exactly once");
  vmc::check(stops <= 1, "C19", "stop-twice", "stop event delivered more than once");
  vmc::check(callbacks + stops == 1 || (callbacks + stops == 0), "C19", "two-winners", "both the callback and the stop event completed the operation");
  if (have_fire) {
    // a late callback, after the winner completed and the operation state was freed, must be a no-op
    int before = rs.count;
    fire();
    vmc::check(rs.count == before, "C19", "late-callback", "late safe callback touched a completed operation");
  }
  vmc::note(rs.str() + " cb=" + std::to_string(callbacks) + " stop=" + std::to_string(stops) + " fb=" + std::to_string(fallbacks));
}

// detach_on_cancel: child completes on thread A ∥ stop on thread B; receiver frees the outer op; the
// abandoned child must still be freed exactly once when it finishes
VMC_HARNESS(canc_detach, "C19,C02,C01") {
  kit::LeafState leaf; RcvState rs; FreeCtl ctl; inplace_stop_source src;
  rs.props = "C19,C01"; leaf.props = "C19,C02";
  int outcome = vmcrt::arg(0, 0);  // 0 value 1 error 2 done
  auto* h = kit::make_heap_op(detach_on_cancel(kit::Leaf{&leaf}), kit::FreeingRcv<>{&rs, &ctl, src.get_token()}, ctl);
  int done_at_stop = -1; bool child_must_see_stop = false; bool started_done = false;
  std::thread stopper([&] {
    bool was_started = started_done;
    src.request_stop();
    // the stop request returned: if the operation was started and the child had not completed by now, the
    // receiver must already be done and the still-running child must have observed the stop request
    if (was_started && leaf.completed == 0) { done_at_stop = rs.count; child_must_see_stop = true; }
  });
  unifex::start(h->op);
  started_done = true;
  std::thread completer([&] {
    vmc::wait_until([&] { return leaf.started > 0; });
    kit::complete(leaf, "VED"[outcome], 5);
  });
  completer.join(); stopper.join();
  vmc::check(rs.count == 1, "C19,C01", "not-once", "detach_on_cancel receiver not completed exactly once");
  if (done_at_stop >= 0) vmc::check(done_at_stop == 1 && rs.how == 'D', "C19", "detach-not-immediate", "detach_on_cancel did not complete with done at the stop request");
  vmc::check(leaf.ops_alive == 0, "C19,C02", "child-leak", "abandoned child operation not destroyed exactly once");
  if (rs.how != 'D') vmc::check(rs.how == "VED"[outcome], "C19", "wrong-result", "detach_on_cancel changed the child's result");
  if (child_must_see_stop) vmc::check(leaf.stop_seen, "C19,C04", "child-not-stopped", "detached child still running at the stop request did not observe it");
  vmc::note(rs.str() + (leaf.stop_seen ? " childstop" : ""));
}

// stop_on_request(tok1, tok2) + receiver token, fired from two threads while start() constructs callbacks
VMC_HARNESS(canc_stoponreq, "C19,C04,C01") {
  RcvState rs; FreeCtl ctl; inplace_stop_source s1, s2, rsrc;
  rs.props = "C19,C01";
  auto* h = kit::make_heap_op(stop_on_request(s1.get_token(), s2.get_token()), kit::FreeingRcv<>{&rs, &ctl, rsrc.get_token()}, ctl);
  int who = vmcrt::arg(0, 0);
  std::thread t1([&] { s1.request_stop(); });
  std::thread t2([&] { if (who == 0) s2.request_stop(); else rsrc.request_stop(); });
  unifex::start(h->op);
  t1.join(); t2.join();
  vmc::check(rs.count == 1 && rs.how == 'D', "C19,C01", "not-once", "stop_on_request not completed exactly once with done");
  vmc::note(rs.str());
}

// canary / watcher / guard: destroy canary ∥ alive()+guard ∥ destroy watcher
VMC_HARNESS(canc_canary, "C19") {
  int mode = vmcrt::arg(0, 0);
  auto* c = new canary();
  bool canary_dtor_returned = false;
  bool guarded_section_saw_dead = false;
  int alive_true = 0;
  {
    auto* w = new canary::watcher(c->watch());
    std::thread killer([&] { delete c; canary_dtor_returned = true; });
    if (mode == 0) {
      {
        auto g = w->alive();
        if (g) {
          ++alive_true;
          // while the guard is held the canary's destructor must not return
          if (canary_dtor_returned) guarded_section_saw_dead = true;
          std::atomic<int> pause{0}; pause.store(1);  // a scheduling point inside the guarded section
          if (canary_dtor_returned) guarded_section_saw_dead = true;
        }
      }
      delete w;
    } else {
      delete w;   // watcher destroyed concurrently with the canary
    }
    killer.join();
  }
  vmc::check(!guarded_section_saw_dead, "C19", "guard-broken", "canary destructor returned while a truthy guard was held");
  vmc::note(std::string("alive=") + char('0' + alive_true));
}
