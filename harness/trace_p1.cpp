#define TRACE_PART 1
#include "trace.cpp"
