// C18(a) — any_unique / any_object / any_ref: every operation sequence (depth <= arg0) over two wrapper slots and
// four wrapped types, compared with a plain reference; tracked constructions / destructions / copies.
#include <vmc_main.hpp>
#include <probes.hpp>
#include <unifex/any_unique.hpp>
#include <unifex/any_object.hpp>
#include <unifex/any_ref.hpp>
#include <unifex/this.hpp>
#include <unifex/tag_invoke.hpp>
using namespace unifex;

namespace {
struct Ledger { int ctor = 0, dtor = 0, copies = 0, moves = 0; int throw_at_move = 0; int throw_at_copy = 0; bool copies_allowed = false; int live() const { return ctor - dtor; } };
Ledger* L;
struct injected {};

inline constexpr struct get_val_cpo {
  using type_erased_signature_t = int(const this_&) noexcept;
  template <class T> auto operator()(const T& x) const noexcept -> tag_invoke_result_t<get_val_cpo, const T&> { return tag_invoke(*this, x); }
} get_val{};
inline constexpr struct set_val_cpo {
  using type_erased_signature_t = void(this_&, int);
  template <class T> auto operator()(T& x, int v) const -> tag_invoke_result_t<set_val_cpo, T&, int> { return tag_invoke(*this, x, v); }
} set_val{};

template <int Pad, int Align, bool NothrowMove>
struct alignas(Align) Obj {
  int val; bool moved_from = false; char pad[Pad] = {};
  explicit Obj(int v) : val(v) { ++L->ctor; }
  Obj(const Obj& o) : val(o.val) { ++L->copies; if (L->throw_at_copy && L->copies == L->throw_at_copy) throw injected{}; ++L->ctor; }
  Obj(Obj&& o) noexcept(NothrowMove) : val(o.val) {
    if (!NothrowMove) { ++L->moves; if (L->throw_at_move && L->moves == L->throw_at_move) throw injected{}; }
    else ++L->moves;
    ++L->ctor; o.moved_from = true; o.val = -o.val - 1000;
  }
  ~Obj() { ++L->dtor; if ((reinterpret_cast<uintptr_t>(this) % Align) != 0) vmcrt::fail("C18", "misaligned", "wrapped object stored at a misaligned address"); }
  friend int tag_invoke(get_val_cpo, const Obj& o) noexcept { return o.val; }
  friend void tag_invoke(set_val_cpo, Obj& o, int v) { if (v == 666) throw injected{}; o.val = v; }
};
using Small = Obj<1, 4, true>;
using SmallThrow = Obj<1, 4, false>;
using Large = Obj<120, 8, true>;
using Over = Obj<8, 32, true>;

using AU = any_unique_t<get_val, set_val>;
using AO = basic_any_object<32, 32, false, std::allocator<std::byte>, tag_t<get_val>, tag_t<set_val>>;   // throwing moves allowed inline
using AOn = basic_any_object<32, 32, true, std::allocator<std::byte>, tag_t<get_val>, tag_t<set_val>>;   // only nothrow-movable inline
using AR = any_ref_t<get_val, set_val>;

struct Ref { bool engaged = false; bool valid = false; int val = 0; };   // valid=false: moved-from (value unspecified)

template <class W>
void run_seq(int depth, bool with_swap) {
  Ledger led; L = &led;
  {
    std::optional<W> w[2]; Ref r[2];
    int fault = vmc::choose(3);   // 0 none, 1: first throwing move throws, 2: second
    led.throw_at_move = fault;
    std::string trace;
    for (int step = 0; step < depth; ++step) {
      int op = vmc::choose(with_swap ? 8 : 9);   // any_object additionally: assignment from a value (copy / move)
      int a = vmc::choose(2), b = 1 - a;
      try {
        switch (op) {
          case 0: { int ty = vmc::choose(4); int v = 10 * (step + 1) + ty;
            trace += "ctor" + std::to_string(ty) + " ";
            if (ty == 0) w[a].emplace(Small(v)); else if (ty == 1) w[a].emplace(SmallThrow(v)); else if (ty == 2) w[a].emplace(Large(v)); else w[a].emplace(Over(v));
            r[a] = Ref{true, true, v}; break; }
          case 1: { int ty = vmc::choose(4); int v = 10 * (step + 1) + ty + 5;
            trace += "inplace" + std::to_string(ty) + " ";
            if (ty == 0) w[a].emplace(std::in_place_type<Small>, v); else if (ty == 1) w[a].emplace(std::in_place_type<SmallThrow>, v); else if (ty == 2) w[a].emplace(std::in_place_type<Large>, v); else w[a].emplace(std::in_place_type<Over>, v);
            r[a] = Ref{true, true, v}; break; }
          case 2: trace += "moveassign ";
            if (w[a] && w[b]) { Ref src = r[b]; r[b].valid = false; r[a].valid = false; *w[a] = std::move(*w[b]); r[a] = src; }
            break;
          case 3: trace += "movector ";
            if (w[b]) { Ref src = r[b]; r[b].valid = false; w[a].reset(); r[a] = Ref{}; w[a].emplace(std::move(*w[b])); r[a] = src; }
            break;
          case 4: trace += "get ";
            if (w[a] && r[a].valid) { int got = get_val(*w[a]); vmc::check(got == r[a].val, "C18", "value", "CPO on the wrapper returned " + std::to_string(got) + ", the wrapped object holds " + std::to_string(r[a].val) + " | " + trace); }
            break;
          case 5: trace += "set ";
            if (w[a] && r[a].valid) { int v = 900 + step; set_val(*w[a], v); r[a].val = v; }
            break;
          case 6: trace += "destroy "; w[a].reset(); r[a] = Ref{}; break;
          case 7:
            if constexpr (std::is_same_v<W, AU>) { trace += "swap "; if (w[a] && w[b]) { w[a]->swap(*w[b]); std::swap(r[a], r[b]); } }
            else if (w[a]) {
              // wrapper = lvalue: the wrapped object is replaced by a copy; the copy may throw (chosen)
              int ty = vmc::choose(3); int v = 700 + step; bool thr = vmc::choose(2);
              trace += std::string("assign_copy") + std::to_string(ty) + (thr ? "!" : "") + " ";
              led.copies_allowed = true; int before = led.copies; led.throw_at_copy = thr ? led.copies + 1 : 0;
              r[a].valid = false;
              if (ty == 0) { Small x(v); *w[a] = x; } else if (ty == 1) { SmallThrow x(v); *w[a] = x; } else { Large x(v); *w[a] = x; }
              led.throw_at_copy = 0; led.copies -= (led.copies - before);
              r[a] = Ref{true, true, v};
            }
            break;
          case 8:
            if constexpr (!std::is_same_v<W, AU>) if (w[a]) {
              int ty = vmc::choose(3); int v = 800 + step;
              trace += "assign_move" + std::to_string(ty) + " ";
              r[a].valid = false;
              if (ty == 0) *w[a] = Small(v); else if (ty == 1) *w[a] = SmallThrow(v); else *w[a] = Large(v);
              r[a] = Ref{true, true, v};
            }
            break;
        }
      } catch (const injected&) {
        trace += "(threw) ";
        // the exception propagated unchanged; the wrappers involved must stay destructible; their values are unspecified
        r[0].valid = r[1].valid = false;
        r[0].engaged = w[0].has_value(); r[1].engaged = w[1].has_value();
        led.throw_at_move = 0; led.copies -= (led.throw_at_copy ? 1 : 0); led.throw_at_copy = 0;
      }
      // a throwing CPO on the wrapped object propagates unchanged
      if (op == 5 && w[a] && r[a].valid && vmc::choose(4) == 0) {
        bool caught = false;
        try { set_val(*w[a], 666); } catch (const injected&) { caught = true; }
        vmc::check(caught, "C18", "exception", "exception thrown by the wrapped object's operation did not propagate unchanged");
      }
      vmc::check(led.copies == 0, "C18", "copied", "moving/assigning a wrapper copied the wrapped object | " + trace);
    }
  }
  vmc::check(led.live() == 0, "C18,C02", "ledger", "wrapped objects constructed " + std::to_string(led.ctor) + " times but destroyed " + std::to_string(led.dtor) + " times");
  vmc::note(std::to_string(led.ctor > 0));
}
}  // namespace

VMC_SEQ_HARNESS(any_unique_seq, "C18,C02") { run_seq<AU>(vmcrt::arg(0, 3), true); }
VMC_SEQ_HARNESS(any_object_seq, "C18,C02") { run_seq<AO>(vmcrt::arg(0, 3), false); }
VMC_SEQ_HARNESS(any_object_nt_seq, "C18,C02") { run_seq<AOn>(vmcrt::arg(0, 3), false); }

// any_unique: the wrapped object is never moved once on the heap; any_object: small objects inline, large on the heap
VMC_SEQ_HARNESS(any_storage, "C18") {
  Ledger led; L = &led;
  {
    AU u1{Large(1)}; AU u3{Small(2)};
    int moves0 = led.moves;
    AU u2{std::move(u1)}; u3 = std::move(u2);
    vmc::check(led.moves == moves0, "C18", "heap-move", "moving an any_unique moved the wrapped object instead of transferring it");
    vmc::check(get_val(u3) == 1, "C18", "value", "any_unique lost its value");
    AO o1{std::in_place_type<Large>, 3};
    moves0 = led.moves;
    AO o2{std::move(o1)};
    vmc::check(led.moves == moves0, "C18", "heap-move", "moving an any_object holding a large object moved the object");
    AO o3{std::in_place_type<Small>, 4};
    moves0 = led.moves;
    AO o4{std::move(o3)};
    vmc::check(led.moves == moves0 + 1, "C18", "inline-move", "moving an any_object holding a small object must move it exactly once");
    vmc::check(get_val(o4) == 4 && get_val(o2) == 3, "C18", "value", "any_object lost its value");
    // any_ref: refers to, never owns; copies compare equal; queries reach the referee
    Small s(7); Small t(7);
    int ctor0 = led.ctor;
    AR r1{s}; AR r2 = r1; AR r3{t};
    vmc::check(led.ctor == ctor0, "C18", "ref-copied", "any_ref copied the object it refers to");
    vmc::check(r1 == r2 && !(r1 == r3) && r1 != r3, "C18", "ref-equality", "any_ref equality is not identity of the referee");
    set_val(r2, 8);
    vmc::check(s.val == 8 && get_val(r1) == 8 && get_val(r3) == 7, "C18", "ref-forward", "any_ref did not forward the operation to the object it refers to");
    swap(r1, r3);
    vmc::check(get_val(r1) == 7 && get_val(r3) == 8, "C18", "ref-swap", "any_ref swap broken");
  }
  vmc::check(led.live() == 0, "C18,C02", "ledger", "wrapped objects leaked or destroyed twice");
  vmc::note("ok");
}
