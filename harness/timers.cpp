// C07 — timers: never early, due-time order, prompt cancellation, exactly once, no retained reference;
// monotonic_clock::time_point arithmetic
#include <vmc_main.hpp>
#include <probes.hpp>
#include <unifex/timed_single_thread_context.hpp>
#include <unifex/thread_unsafe_event_loop.hpp>
#include <unifex/linux/monotonic_clock.hpp>
using namespace unifex;
using namespace std::chrono_literals;

namespace {
struct TItem { int count = 0; char how = '?'; long long when = -1; int order = -1; long long due = 0; int submit = -1; long long submitted_at = -1; };
// b must complete before a when b is due strictly earlier and was already queued before a's due time arrived
// (a cannot have been dequeued before then); equal due times: submission order, same proviso
bool must_precede(const TItem& b, const TItem& a) {
  if (b.submitted_at < 0 || a.submitted_at < 0) return false;
  if (b.due < a.due) return b.submitted_at < a.due;
  if (b.due == a.due) return b.submit < a.submit && b.submitted_at < a.due && a.submitted_at < a.due;
  return false;
}
struct TClock { int seq = 0; };
struct TimerRcv {
  TItem* it; TClock* k; kit::FreeCtl* ctl; inplace_stop_token tok{};
  void sig(char h) noexcept {
    vmc::publish();
    ++it->count; it->how = h; it->when = vmc::now(); it->order = k->seq++;
    vmc::check(it->count == 1, "C07,C01", "completed-twice", "timer operation completed more than once");
    if (ctl) ctl->free_now();   // the operation is freed at completion: a context that kept a reference faults
  }
  void set_value() noexcept { sig('V'); }
  void set_done() noexcept { sig('D'); }
  template <class E> void set_error(E&&) noexcept { sig('E'); }
  friend inplace_stop_token tag_invoke(tag_t<get_stop_token>, const TimerRcv& r) noexcept { return r.tok; }
};
const long long kDue[] = {-1000000, 0, 1000000, 1000000, 5000000};   // past, now, +1ms, +1ms (tie), +5ms
}  // namespace

// timed_single_thread_context: two timers with due times from the alphabet (arg0, arg1 index kDue), timer 0 is
// stopped by another thread at any point (arg2=1: before start), a clock thread moves virtual time to +1ms at any
// point (expiry vs. cancel race); arg3: 0 = schedule_at, 1 = schedule_after
VMC_HARNESS(tim_single, "C07,C01,C02") {
  int d0 = vmcrt::arg(0, 2), d1 = vmcrt::arg(1, 3); bool stop_first = vmcrt::arg(2, 0) != 0; bool after = vmcrt::arg(3, 0) != 0;
  TItem it[2]; TClock k; kit::FreeCtl ctl[2]; inplace_stop_source src0, never;
  long long t0 = vmc::now();
  long long stop_returned_at = -1; bool advanced = false; long long advanced_at_stop = 0;
  {
    timed_single_thread_context ctx;
    auto sched = ctx.get_scheduler();
    auto base = timed_single_thread_context::clock_t::now();
    it[0].due = t0 + kDue[d0]; it[1].due = t0 + kDue[d1];
    if (stop_first) src0.request_stop();
    auto mk = [&](int i, long long d) {
      TimerRcv r{&it[i], &k, &ctl[i], i == 0 ? src0.get_token() : never.get_token()};
      if (after) return (void*)kit::make_heap_op(schedule_after(sched, std::chrono::nanoseconds(d)), std::move(r), ctl[i]);
      return (void*)kit::make_heap_op(schedule_at(sched, base + std::chrono::nanoseconds(d)), std::move(r), ctl[i]);
    };
    using after_op = kit::HeapOp<decltype(schedule_after(sched, std::chrono::nanoseconds(1))), TimerRcv>;
    using at_op = kit::HeapOp<decltype(schedule_at(sched, base)), TimerRcv>;
    void* h0 = mk(0, kDue[d0]); void* h1 = mk(1, kDue[d1]);
    auto start_op = [&](void* h) { if (after) unifex::start(static_cast<after_op*>(h)->op); else unifex::start(static_cast<at_op*>(h)->op); };
    std::thread stopper([&] {
      if (stop_first) return;
      src0.request_stop();
      stop_returned_at = vmc::now();
    });
    std::thread clk([&] { vmc::advance(1ms); advanced = true; });
    it[0].submit = 0; start_op(h0); it[0].submitted_at = vmc::now();
    it[1].submit = 1; start_op(h1); it[1].submitted_at = vmc::now();
    stopper.join(); clk.join();
    vmc::wait_until([&] { return it[0].count > 0 && it[1].count > 0; });
  }
  for (int i = 0; i < 2; ++i) {
    vmc::check(it[i].count == 1, "C07,C01", "timer-lost", "timer operation did not complete exactly once");
    if (it[i].how == 'V') vmc::check(it[i].when >= it[i].due, "C07", "fired-early", "timer completed with value before its due time");
    vmc::check(ctl[i].freed, "C07", "harness", "op not freed");
  }
  // the stopped timer: done without waiting for its due time
  if (stop_first) vmc::check(it[0].how == 'D' || it[0].due <= t0, "C07,C04", "stop-before-start", "timer started with stop already requested did not complete with done");
  if (it[0].how == 'D' && it[0].due > t0 + 1000000) vmc::check(it[0].when < it[0].due, "C07", "cancel-not-prompt", "stopped timer completed with done only when its due time arrived");
  if (it[0].how == 'V') vmc::check(it[0].when >= it[0].due, "C07", "fired-early", "timer fired early");
  // due-time order among value completions (ties in submission order)
  if (it[0].how == 'V' && it[1].how == 'V' && !after) {
    if (must_precede(it[0], it[1])) vmc::check(it[0].order < it[1].order, "C07", "due-order", "timers did not complete in due-time order (ties in submission order)");
    if (must_precede(it[1], it[0])) vmc::check(it[1].order < it[0].order, "C07", "due-order", "timers did not complete in due-time order (ties in submission order)");
  }
  vmc::note(std::string(1, it[0].how) + it[1].how + (it[0].order < it[1].order ? " 0first" : " 1first"));
}

// three timers: due times from {+1ms, +2ms, +3ms, +3ms(tie)} chosen per timer (data choice), submitted in index order by
// one thread, then one of them (data choice) is cancelled by another thread while the clock thread lets time pass.
// Covers insertion at the head / in the middle / at the tail of the context's queue followed by removal of a
// neighbour.  args: [0 schedule_at, 1 schedule_after][ms the canceller waits first]
VMC_HARNESS(tim_three, "C07,C01,C02") {
  static const long long kD[] = {1000000, 2000000, 3000000, 3000000};
  bool after = vmcrt::arg(0, 0) != 0;
  int d[3] = {vmc::choose(4), vmc::choose(4), vmc::choose(4)};
  int victim = vmc::choose(3);
  TItem it[3]; TClock k; kit::FreeCtl ctl[3]; inplace_stop_source src, never;
  long long t0 = vmc::now(), stop_at = -1;
  {
    timed_single_thread_context ctx;
    auto sched = ctx.get_scheduler();
    auto base = timed_single_thread_context::clock_t::now();
    using after_op = kit::HeapOp<decltype(schedule_after(sched, std::chrono::nanoseconds(1))), TimerRcv>;
    using at_op = kit::HeapOp<decltype(schedule_at(sched, base)), TimerRcv>;
    void* h[3];
    for (int i = 0; i < 3; ++i) {
      it[i].due = t0 + kD[d[i]];
      TimerRcv r{&it[i], &k, &ctl[i], i == victim ? src.get_token() : never.get_token()};
      if (after) h[i] = kit::make_heap_op(schedule_after(sched, std::chrono::nanoseconds(kD[d[i]])), std::move(r), ctl[i]);
      else h[i] = kit::make_heap_op(schedule_at(sched, base + std::chrono::nanoseconds(kD[d[i]])), std::move(r), ctl[i]);
    }
    bool all_started = false;
    int delay_ms = vmcrt::arg(1, 0);
    std::thread stopper([&] { vmc::wait_until([&] { return all_started; }); if (delay_ms) std::this_thread::sleep_for(std::chrono::milliseconds(delay_ms)); stop_at = vmc::now(); src.request_stop(); });
    for (int i = 0; i < 3; ++i) {
      it[i].submit = i;
      if (after) unifex::start(static_cast<after_op*>(h[i])->op); else unifex::start(static_cast<at_op*>(h[i])->op);
      it[i].submitted_at = vmc::now();
    }
    all_started = true;
    stopper.join();
    vmc::wait_until([&] { return it[0].count > 0 && it[1].count > 0 && it[2].count > 0; });
  }
  for (int i = 0; i < 3; ++i) {
    vmc::check(it[i].count == 1, "C07,C01", "timer-lost", "timer operation did not complete exactly once");
    if (it[i].how == 'V') vmc::check(it[i].when >= it[i].due, "C07", "fired-early", "timer completed with value before its due time");
    if (i != victim) vmc::check(it[i].how == 'V', "C07,C01", "timer-lost", "a timer that was not cancelled did not complete with value");
  }
  // prompt: done is delivered without waiting for the due time (unless the request itself came that late)
  if (it[victim].how == 'D') vmc::check(it[victim].when < it[victim].due || it[victim].when <= stop_at, "C07", "cancel-not-prompt", "stopped timer completed with done only when its due time arrived");
  if (!after)
    for (int a = 0; a < 3; ++a) for (int b = 0; b < 3; ++b)
      if (a != b && it[a].how == 'V' && it[b].how == 'V' && must_precede(it[a], it[b]))
        vmc::check(it[a].order < it[b].order, "C07", "due-order", "timers did not complete in due-time order (ties in submission order)");
  vmc::note(std::string(1, it[0].how) + it[1].how + it[2].how);
}

// thread_unsafe_event_loop: single logical thread, virtual clock. histories: 2 timers from the due alphabet,
// stop of timer 0 before start / while queued / never. The operation lives in 0xAA-poisoned storage so that a read
// of a never-initialised link faults.
VMC_HARNESS(tim_unsafe, "C07,C02,C01") {
  int d0 = vmc::choose(5), d1 = vmc::choose(5), stop_mode = vmc::choose(3), after = vmc::choose(2);
  TItem it[2]; TClock k; inplace_stop_source src0, never;
  long long t0 = vmc::now();
  thread_unsafe_event_loop loop;
  auto sched = loop.get_scheduler();
  auto base = thread_unsafe_event_loop::clock_t::now();
  it[0].due = t0 + kDue[d0]; it[1].due = t0 + kDue[d1];
  auto run = [&](auto mk) {
    using op_t = decltype(unifex::connect(mk(0), std::declval<TimerRcv>()));
    alignas(op_t) static unsigned char buf[2][sizeof(op_t)];
    std::memset(buf, 0xAA, sizeof buf);
    op_t* ops[2];
    ops[0] = ::new (buf[0]) op_t(unifex::connect(mk(0), TimerRcv{&it[0], &k, nullptr, src0.get_token()}));
    ops[1] = ::new (buf[1]) op_t(unifex::connect(mk(1), TimerRcv{&it[1], &k, nullptr, never.get_token()}));
    if (stop_mode == 1) src0.request_stop();
    unifex::start(*ops[0]);
    unifex::start(*ops[1]);
    if (stop_mode == 2) src0.request_stop();
    // drive the loop: schedule() + sync_wait runs until the queue is empty
    (void)loop.sync_wait(schedule_after(sched, 10ms));
    ops[0]->~op_t(); ops[1]->~op_t();
  };
  if (after) run([&](int i) { return schedule_after(sched, std::chrono::nanoseconds(kDue[i == 0 ? d0 : d1])); });
  else run([&](int i) { return schedule_at(sched, base + std::chrono::nanoseconds(kDue[i == 0 ? d0 : d1])); });
  for (int i = 0; i < 2; ++i) {
    vmc::check(it[i].count == 1, "C07,C01", "timer-lost", "thread_unsafe_event_loop timer did not complete exactly once");
    if (it[i].how == 'V') vmc::check(it[i].when >= it[i].due, "C07", "fired-early", "timer completed with value before its due time");
  }
  if (stop_mode != 0) {
    vmc::check(it[0].how == 'D', "C07,C04", "stop-ignored", "stopped timer did not complete with done");
    if (it[0].due > t0 + 1000000) vmc::check(it[0].when < it[0].due, "C07", "cancel-not-prompt", "stopped timer waited for its due time");
  }
  if (it[0].how == 'V' && it[1].how == 'V') {
    if (it[0].due < it[1].due) vmc::check(it[0].order < it[1].order, "C07", "due-order", "timers did not complete in due-time order");
    if (it[1].due < it[0].due) vmc::check(it[1].order < it[0].order, "C07", "due-order", "timers did not complete in due-time order");
    if (it[0].due == it[1].due) vmc::check(it[0].order < it[1].order, "C07", "tie-order", "timers with equal due times did not complete in submission order");
  }
  vmc::note(std::string(1, it[0].how) + it[1].how);
}

// monotonic_clock::time_point arithmetic against an __int128 nanosecond reference
namespace {
using tp = linuxos::monotonic_clock::time_point;
using i128 = __int128;
i128 ns(const tp& t) { return (i128)t.seconds_part() * 1000000000 + t.nanoseconds_part(); }
bool canon(const tp& t) {
  long long n = t.nanoseconds_part(); auto s = t.seconds_part();
  if (n <= -1000000000 || n >= 1000000000) return false;
  if (s > 0 && n < 0) return false;
  if (s < 0 && n > 0) return false;
  return true;
}
const long long kSecs[] = {0, 1, -1, 2, -2, 1000, -1000, 4000000000LL, -4000000000LL};
const long long kNs[] = {0, 1, -1, 99, 100, 101, -99, -100, -101, 999999999, -999999999, 500000000, -500000000, 1000000000, -1000000000, 1999999999, -1999999999};
}  // namespace
VMC_SEQ_HARNESS(tim_clockmath, "C07") {
  int si = vmc::choose(9), ni = vmc::choose(17);
  tp a = tp::from_seconds_and_nanoseconds(kSecs[si], kNs[ni]);
  vmc::check(canon(a), "C07", "canonical", "time_point not canonical after from_seconds_and_nanoseconds");
  vmc::check(ns(a) == (i128)kSecs[si] * 1000000000 + kNs[ni], "C07", "from-value", "from_seconds_and_nanoseconds changed the instant");
  long bad = 0;
  for (long long s : {0LL, 1LL, -1LL, 3LL, -3LL}) for (long long n : kNs) {
    auto d = std::chrono::seconds(s) + std::chrono::nanoseconds(n);
    tp r = a + d, q = a - d;
    vmc::check(ns(r) == ns(a) + d.count(), "C07", "add", "time_point + duration is not exact");
    vmc::check(canon(r), "C07", "canonical", "time_point + duration not canonical");
    vmc::check(ns(q) == ns(a) - d.count(), "C07", "sub", "time_point - duration is not exact");
    vmc::check(canon(q), "C07", "canonical", "time_point - duration not canonical");
    vmc::check(ns((a + d) - d) == ns(a), "C07", "roundtrip", "(tp + d) - d != tp");
    auto ms = std::chrono::milliseconds(s * 7 + n % 1000);
    vmc::check(ns(a + ms) == ns(a) + (i128)ms.count() * 1000000, "C07", "add", "time_point + milliseconds is not exact");
  }
  for (long long s2 : kSecs) for (long long n2 : kNs) {
    tp b = tp::from_seconds_and_nanoseconds(s2, n2);
    vmc::check((a < b) == (ns(a) < ns(b)), "C07", "order", "operator< disagrees with the instants");
    vmc::check((a == b) == (ns(a) == ns(b)), "C07", "equality", "operator== disagrees with the instants (non-canonical representation?)");
    vmc::check((a <= b) == (ns(a) <= ns(b)) && (a > b) == (ns(a) > ns(b)) && (a >= b) == (ns(a) >= ns(b)) && (a != b) == (ns(a) != ns(b)), "C07", "order", "comparison operators inconsistent");
    i128 exact = ns(a) - ns(b); i128 got = (i128)(a - b).count() * 100;
    bool ok = exact % 100 == 0 ? got == exact : (got - exact < 100 && exact - got < 100);
    vmc::check(ok, "C07", "diff", "time_point - time_point is not exact to the clock's 100ns tick");
    ++bad;
  }
  vmc::note(ns(a) < 0 ? "neg" : ns(a) == 0 ? "zero" : "pos");
}
