// multi-thread races of the atomically elected completers in the composition algorithms (C01, C02, C04):
// two children completing on two threads while a third thread requests stop; the receiver frees the
// heap-allocated operation state when it is completed.
#include <vmc_main.hpp>
#include <probes.hpp>
#include <unifex/when_all.hpp>
#include <unifex/when_all_range.hpp>
#include <unifex/when_any.hpp>
#include <unifex/stop_when.hpp>
#include <unifex/then.hpp>
#include <unifex/let_value.hpp>
#include <unifex/let_value_with_stop_source.hpp>
#include <unifex/finally.hpp>
#include <unifex/sequence.hpp>
using namespace unifex;
using kit::RcvState; using kit::LeafState; using kit::FreeCtl;

namespace {
// kind: 0 when_all, 1 when_all_range, 2 stop_when, 3 when_any, 4 let_value_with_stop_source(when_all)
// args: [0]=kind [1]=outcome of a (0 V,1 E,2 D) [2]=outcome of b [3]=1: no stop request
template <class Snd>
void race(Snd snd, LeafState& a, LeafState& b, int kind) {
  int oa = vmcrt::arg(1, 0), ob = vmcrt::arg(2, 0); bool with_stop = vmcrt::arg(3, 0) == 0;
  RcvState rs; rs.props = "C01,C04"; FreeCtl ctl; inplace_stop_source src;
  a.props = b.props = "C01,C02,C04"; a.name = "child a"; b.name = "child b";
  auto* h = kit::make_heap_op(std::move(snd), kit::FreeingRcv<>{&rs, &ctl, src.get_token()}, ctl);
  unifex::start(h->op);
  vmc::check(a.started == 1 && b.started == 1, "C05", "not-started", "both children must be started");
  // requesters of the composite's internal stop: the external stop thread and a child completing with done/error
  // (for stop_when / when_any every completion). A child that is still running once every requester that has
  // begun has also returned - and at least one has - must have observed the stop request.
  struct Req { bool begun = false, returned = false; } rs_stop, rs_a, rs_b;
  bool a_requests = oa != 0 || kind == 2 || kind == 3, b_requests = ob != 0 || kind == 2 || kind == 3;
  auto must_have_seen = [&](const Req& other_child, bool other_requests) {
    bool any = false;
    if (with_stop) { if (rs_stop.begun && !rs_stop.returned) return false; any = any || rs_stop.returned; }
    if (other_requests) { if (other_child.begun && !other_child.returned) return false; any = any || other_child.returned; }
    return any;
  };
  std::thread ta([&] {
    if (must_have_seen(rs_b, b_requests) && rs.count == 0) vmc::check(a.stop_seen, "C04", "stop-not-delivered", "child a still running after the stop request/sibling failure did not observe a stop request");
    rs_a.begun = true; kit::complete(a, "VED"[oa], 1); rs_a.returned = true;
  });
  std::thread tb([&] {
    if (must_have_seen(rs_a, a_requests) && rs.count == 0) vmc::check(b.stop_seen, "C04", "stop-not-delivered", "child b still running after the stop request/sibling failure did not observe a stop request");
    rs_b.begun = true; kit::complete(b, "VED"[ob], 2); rs_b.returned = true;
  });
  std::thread ts([&] {
    if (!with_stop) return;
    rs_stop.begun = true; src.request_stop(); rs_stop.returned = true;
  });
  ta.join(); tb.join(); ts.join();
  vmc::check(rs.count == 1, "C01", "not-once", "composite not completed exactly once after all children completed");
  vmc::check(ctl.freed, "C01", "not-freed", "harness: operation not freed");
  vmc::check(a.ops_alive == 0 && b.ops_alive == 0, "C02", "child-leak", "child operation states not destroyed exactly once");
  // result plausibility (C05): value only if nobody failed
  bool anybad = oa != 0 || ob != 0;
  if (kind == 0 || kind == 1 || kind == 4) {
    if (rs.how == 'V') vmc::check(!anybad, "C05", "result", "when_all produced a value although a child completed with done/error");
    if (!anybad && !with_stop) vmc::check(rs.how == 'V', "C05", "result", "when_all over two values did not produce a value");
    if (rs.how == 'E') vmc::check(oa == 1 || ob == 1, "C05", "result", "when_all produced an error no child sent");
  }
  if (kind == 2) vmc::check(rs.how == "VED"[oa], "C05", "result", "stop_when did not complete with the source's result");
  vmc::note(rs.str() + (a.stop_seen ? " a" : "") + (b.stop_seen ? " b" : ""));
}
}  // namespace

VMC_HARNESS(race_compose, "C01,C02,C04,C05") {
  int kind = vmcrt::arg(0, 0);
  LeafState a, b;
  auto sum = [](auto&& x, auto&& y) noexcept { return std::get<0>(std::get<0>(x)) + std::get<0>(std::get<0>(y)); };
  switch (kind) {
    case 0: race(then(when_all(kit::Leaf{&a}, kit::Leaf{&b}), sum), a, b, kind); break;
    case 1: { std::vector<kit::Leaf> v{kit::Leaf{&a}, kit::Leaf{&b}}; race(then(when_all_range(std::move(v)), [](std::vector<int> r) noexcept { return r[0] + r[1]; }), a, b, kind); break; }
    case 2: race(stop_when(kit::Leaf{&a}, kit::VLeaf{&b}), a, b, kind); break;
    case 3: race(when_any(kit::Leaf{&a}, kit::Leaf{&b}), a, b, kind); break;
  }
}
// let_value_with_stop_source over when_all: a stop request racing the natural completion (recorded finding: the
// operation is destroyed while request_stop() on its own stop source is still running)
VMC_HARNESS(race_lvss, "C02,C04") {
  LeafState a, b;
  auto sum = [](auto&& x, auto&& y) noexcept { return std::get<0>(std::get<0>(x)) + std::get<0>(std::get<0>(y)); };
  race(let_value_with_stop_source([&](inplace_stop_source&) { return then(when_all(kit::Leaf{&a}, kit::Leaf{&b}), sum); }), a, b, 4);
}
