#define TRACE_PART 2
#include "trace.cpp"
