// C14 — io_epoll_context over the simulated kernel (kit/ksim): remote scheduling vs the idle/wake-up protocol,
// run(stop_token), timers, pipe reads/writes with cancellation, descriptor reuse, short and failed syscalls.
// Every operation state and every I/O buffer lives on the heap and is freed by its receiver, so a context (or a
// kernel registration) that still refers to a completed operation is caught by ASan when it is next touched, and
// directly by ksim::registration_points_into().
#include <vmc_main.hpp>
#include <ksim.hpp>
#include <iokit.hpp>
#include <unifex/linux/io_epoll_context.hpp>
#include <unifex/inplace_stop_token.hpp>
#include <unifex/scheduler_concepts.hpp>
#include <unifex/sender_concepts.hpp>
#include <unifex/receiver_concepts.hpp>
#include <unifex/io_concepts.hpp>
#include <unifex/span.hpp>
#include <cstring>
#include <memory>
#include <optional>
#include <string>
#include <system_error>
#include <vector>
using namespace unifex;
using unifex::linuxos::io_epoll_context;

using namespace iokit;
namespace {
struct World {
  ksim::Config cfg;
  std::optional<io_epoll_context> ctx;
  inplace_stop_source run_stop;
  std::optional<std::thread> io;
  int io_tid = -1;
  bool run_returned = false;
  explicit World(const ksim::Config& c = ksim::Config{}) : cfg(c) {
    ksim::reset(cfg);
    Ctl::stale = &ksim::registration_points_into;
    ctx.emplace();
  }
  void start_loop() {
    io.emplace([this] { io_tid = vmc::self(); ctx->run(run_stop.get_token()); run_returned = true; });
  }
  void stop_and_join() {
    run_stop.request_stop();
    io->join();
    vmc::check(run_returned, "C14", "run-did-not-return", "run(stop_token) did not return after stop was requested");
  }
  void finish() {
    ctx.reset();
    std::string l = ksim::leaks();
    if (!l.empty()) vmcrt::fail("C14", "descriptor-leak", ("descriptors not released exactly once: " + l).c_str());
  }
};
const char* kData = "abcdefghij";
}  // namespace

// ---- remote scheduling vs the idle / wake-up protocol -------------------------------------------------------
// producer A (2 items) || producer B (1 item) || run(); stop after all items ran.  args: [items of A]
VMC_HARNESS(ep_sched, "C14,C06,C01") {
  int na = vmcrt::arg(0, 2);
  World w; Ctl c[3];
  w.start_loop();
  auto sched = w.ctx->get_scheduler();
  std::thread pb([&] { auto& op = heap_connect(c[2], schedule(sched), IoRcv<>{&c[2]}); unifex::start(op); });
  for (int i = 0; i < na; ++i) { auto& op = heap_connect(c[i], schedule(sched), IoRcv<>{&c[i]}); unifex::start(op); }
  pb.join();
  vmc::wait_until([&] { for (int i = 0; i < 3; ++i) if ((i < na || i == 2) && !c[i].d.count) return false; return true; });
  w.stop_and_join();
  for (int i = 0; i < 3; ++i) {
    if (!(i < na || i == 2)) continue;
    vmc::check(c[i].d.count == 1 && c[i].d.how == 'V', "C14,C06", "item-lost", "scheduled item did not run exactly once with value");
    vmc::check(c[i].d.thread == w.io_tid, "C14,C06", "wrong-thread", "item ran on a thread that is not inside run()");
  }
  w.finish();
  vmc::note("ok");
}

// stop racing a remote schedule: run() must return; the item runs at most once, on the I/O thread; if it did not run
// it is still queued (never completed) and may be dropped with the context only because the harness owns it
VMC_HARNESS(ep_stop, "C14,C06") {
  World w; Ctl c;
  w.start_loop();
  auto sched = w.ctx->get_scheduler();
  inplace_stop_source item_stop;
  std::thread p([&] { auto& op = heap_connect(c, schedule(sched), IoRcv<>{&c, item_stop.get_token()}); unifex::start(op); });
  std::thread s([&] { w.run_stop.request_stop(); });
  p.join(); s.join();
  w.io->join();
  vmc::check(w.run_returned, "C14", "run-did-not-return", "run(stop_token) did not return after stop was requested");
  if (c.d.count) vmc::check(c.d.thread == w.io_tid, "C14,C06", "wrong-thread", "item ran outside run()");
  vmc::note(c.d.count ? c.d.str() : "queued");
  if (!c.d.count) {
    // drain: a second run() must pick the item up (it was accepted, so it is not lost)
    inplace_stop_source again; bool ret = false;
    std::thread io2([&] { w.io_tid = vmc::self(); w.ctx->run(again.get_token()); ret = true; });
    vmc::wait_until([&] { return c.d.count > 0; });
    again.request_stop(); io2.join();
    vmc::check(c.d.count == 1 && c.d.how == 'V', "C14,C06", "item-lost", "item accepted before stop was lost");
  }
  w.finish();
}

// ---- timers: schedule_at started remotely, cancelled remotely / not at all -------------------------------------
// args: [cancel: 0 none, 1 remote thread at once, 2 stop requested before start, 3 remote thread at the due time, 4 from the I/O thread]
VMC_HARNESS(ep_timer, "C14,C07") {
  int cancel = vmcrt::arg(0, 1);
  World w; Ctl c, c2;
  w.start_loop();
  auto sched = w.ctx->get_scheduler();
  inplace_stop_source ss;
  if (cancel == 2) ss.request_stop();
  auto due = sched.now() + std::chrono::milliseconds(10);
  long long t0 = vmcrt::now_ns();
  auto& op = heap_connect(c, schedule_at(sched, due), IoRcv<>{&c, ss.get_token()});
  // an earlier, uncancellable timer keeps the heap / timerfd re-arming path busy
  auto& op2 = heap_connect(c2, schedule_at(sched, sched.now() + std::chrono::milliseconds(5)), IoRcv<unstoppable_token>{&c2});
  // 3: the canceller wakes exactly when the timer is due, so expiry and cancellation race
  std::thread k([&] { if (cancel == 3) std::this_thread::sleep_for(std::chrono::milliseconds(10)); if (cancel == 1 || cancel == 3) ss.request_stop(); });
  unifex::start(op);
  unifex::start(op2);
  Ctl ci;
  if (cancel == 4) {
    // stop requested from inside the I/O thread (request_stop_local)
    struct StopRcv { inplace_stop_source* s; Ctl* c; void set_value() noexcept { s->request_stop(); c->signal('V', 0, 0); } void set_error(std::exception_ptr) noexcept {} void set_done() noexcept {} };
    auto& sop = heap_connect(ci, schedule(sched), StopRcv{&ss, &ci});
    unifex::start(sop);
  }
  k.join();
  vmc::wait_until([&] { return c.d.count && c2.d.count; });
  w.stop_and_join();
  vmc::check(c2.d.how == 'V' && c2.d.when - t0 >= 5000000, "C14,C07", "timer-early", "uncancelled timer completed before its due time or not with value");
  if (c.d.how == 'V') vmc::check(c.d.when - t0 >= 10000000, "C14,C07", "timer-early", "timer completed with value before its due time");
  if (cancel == 0) vmc::check(c.d.how == 'V', "C14,C07", "timer-lost", "uncancelled timer did not complete with value");
  if (cancel == 2) vmc::check(c.d.how == 'D', "C14,C07", "timer-not-cancelled", "timer started with stop already requested did not complete with done");
  vmc::check(c.d.thread == w.io_tid && c2.d.thread == w.io_tid, "C14", "wrong-thread", "timer completed outside run()");
  w.finish();
  vmc::note(c.d.str());
}

namespace {
// receiver of the cancellable timer in *_timer3: optionally starts a further timer from its completion
template <class Sched>
struct ChainRcvT {
  Ctl* c; Ctl* cx; Sched s; long long* chain_due; bool chain; inplace_stop_token tok;
  void go(char h) noexcept {
    if (chain) {
      *chain_due = vmcrt::now_ns() + 3000000;
      auto& nop = heap_connect(*cx, schedule_at(s, s.now() + std::chrono::milliseconds(3)), IoRcv<unstoppable_token>{cx});
      unifex::start(nop);
    }
    c->signal(h, 0, 0);
  }
  void set_value() noexcept { go('V'); }
  void set_error(std::exception_ptr) noexcept { go('E'); }
  void set_error(std::error_code) noexcept { go('E'); }
  void set_done() noexcept { go('D'); }
  friend inplace_stop_token tag_invoke(tag_t<get_stop_token>, const ChainRcvT& r) noexcept { return r.tok; }
};
}  // namespace

// ---- three timers (the context's timer list with an element inserted / removed at the head, in the middle, at the tail) --
// Due times from {+5ms, +10ms, +10ms (tie), +15ms} chosen per timer (data choice), all started remotely in index order;
// one of them (data choice) is cancelled by another thread — at once (arg0 = 0), exactly when the FIRST due time arrives
// (arg0 = 1: the cancellation races the expiry of its own or of a neighbouring timer) or at the victim's own due time
// (arg0 = 2).  arg1 = 1: the victim's receiver starts a further timer (+3ms) from its completion, like a periodic timer:
// a context that removes an element that is no longer linked loses or corrupts what was inserted meanwhile.
// Every operation is freed by its receiver, so a list that still links a completed timer is a use-after-free.
VMC_HARNESS(ep_timer3, "C14,C07,C01,C02") {
  static const long long kD[] = {5000000, 10000000, 10000000, 15000000};
  int when = vmcrt::arg(0, 0); bool chain = vmcrt::arg(1, 0) != 0;
  int d[3] = {vmc::choose(4), vmc::choose(4), vmc::choose(4)};
  int victim = vmc::choose(3);
  World w; Ctl c[3], cx;
  w.start_loop();
  auto sched = w.ctx->get_scheduler();
  inplace_stop_source ss, never;
  auto base = sched.now();
  long long t0 = vmcrt::now_ns();
  long long due[3], stop_at = -1, chain_due = -1;
  using ChainRcv = ChainRcvT<decltype(sched)>;
  long long first_due = -1;
  for (int i = 0; i < 3; ++i) { due[i] = t0 + kD[d[i]]; if (first_due < 0 || due[i] < first_due) first_due = due[i]; }
  bool all_started = false;
  std::thread k([&] {
    vmc::wait_until([&] { return all_started; });
    long long target = when == 0 ? 0 : when == 1 ? first_due : due[victim];
    if (target > vmcrt::now_ns()) std::this_thread::sleep_for(std::chrono::nanoseconds(target - vmcrt::now_ns()));
    stop_at = vmcrt::now_ns();
    ss.request_stop();
  });
  for (int i = 0; i < 3; ++i) {
    auto at = base + std::chrono::nanoseconds(kD[d[i]]);
    if (i == victim) { auto& op = heap_connect(c[i], schedule_at(sched, at), ChainRcv{&c[i], &cx, sched, &chain_due, chain, ss.get_token()}); unifex::start(op); }
    else { auto& op = heap_connect(c[i], schedule_at(sched, at), IoRcv<>{&c[i], never.get_token()}); unifex::start(op); }
  }
  all_started = true;
  k.join();
  vmc::wait_until([&] { return c[0].d.count && c[1].d.count && c[2].d.count && (!chain || cx.d.count); });
  w.stop_and_join();
  for (int i = 0; i < 3; ++i) {
    vmc::check(c[i].d.count == 1, "C14,C07,C01", "timer-lost", "timer operation did not complete exactly once");
    if (c[i].d.how == 'V') vmc::check(c[i].d.when >= due[i], "C14,C07", "timer-early", "timer completed with value before its due time");
    if (i != victim) vmc::check(c[i].d.how == 'V', "C14,C07,C01", "timer-lost", "a timer that was not cancelled did not complete with value");
    vmc::check(c[i].d.thread == w.io_tid, "C14", "wrong-thread", "timer completed outside run()");
  }
  if (c[victim].d.how == 'D') vmc::check(c[victim].d.when < due[victim] || stop_at >= due[victim] - 1, "C14,C07", "cancel-not-prompt", "stopped timer completed with done only when its due time arrived");
  if (chain) {
    vmc::check(cx.d.count == 1 && cx.d.how == 'V', "C14,C07,C01", "timer-lost", "the timer started from the victim's completion did not complete with value");
    vmc::check(cx.d.when >= chain_due, "C14,C07", "timer-early", "chained timer completed before its due time");
  }
  // due-time order among the uncancelled ones (ties in submission order; all were queued long before any was due)
  for (int a = 0; a < 3; ++a) for (int b = 0; b < 3; ++b) {
    if (a == b || a == victim || b == victim) continue;
    if (due[a] < due[b] || (due[a] == due[b] && a < b)) vmc::check(c[a].d.when <= c[b].d.when, "C14,C07", "due-order", "timers did not complete in due-time order");
  }
  w.finish();
  vmc::note(std::string(1, c[0].d.how) + c[1].d.how + c[2].d.how + (chain ? cx.d.str() : ""));
}

// ---- pipe data path -------------------------------------------------------------------------------------------
// one async_write_some(wlen) || one async_read_some(rlen) on a pipe of capacity cap, both started remotely.
// args: [cap, wlen, rlen, short(0 none,1 readv,2 writev)]
VMC_HARNESS(ep_pipe, "C14") {
  ksim::Config cfg; cfg.pipe_capacity = vmcrt::arg(0, 2);
  int wlen = vmcrt::arg(1, 3), rlen = vmcrt::arg(2, 2), sh = vmcrt::arg(3, 0);
  if (sh == 1) { cfg.short_call = ksim::C_READV; cfg.short_nth = 0; }
  if (sh == 2) { cfg.short_call = ksim::C_WRITEV; cfg.short_nth = 0; }
  World w(cfg); Ctl cr, cw;
  w.start_loop();
  auto sched = w.ctx->get_scheduler();
  auto [reader, writer] = open_pipe(sched);
  cr.buf.reset(new std::byte[rlen]); cr.buf_size = rlen;
  cw.buf.reset(new std::byte[wlen]); cw.buf_size = wlen; std::memcpy(cw.buf.get(), kData, wlen);
  auto& rop = heap_connect(cr, async_read_some(reader, span<std::byte>(cr.buf.get(), rlen)), IoRcv<unstoppable_token>{&cr});
  auto& wop = heap_connect(cw, async_write_some(writer, span<const std::byte>(cw.buf.get(), wlen)), IoRcv<unstoppable_token>{&cw});
  std::thread tw([&] { unifex::start(wop); });
  unifex::start(rop);
  tw.join();
  vmc::wait_until([&] { return cr.d.count && cw.d.count; });
  vmc::check(cw.d.how == 'V' && cw.d.n >= 1 && cw.d.n <= std::min(wlen, cfg.pipe_capacity), "C14", "write-result", ("write completed with " + cw.d.str()).c_str());
  vmc::check(cr.d.how == 'V' && cr.d.n >= 1 && cr.d.n <= std::min<long>(rlen, cw.d.n), "C14", "read-result", ("read completed with " + cr.d.str() + " after a write of " + cw.d.str()).c_str());
  vmc::check((long)cr.got.size() == cr.d.n && std::memcmp(cr.got.data(), kData, cr.d.n) == 0, "C14", "data-corrupt", "bytes read differ from the bytes written");
  // the rest is still in the pipe, in order
  vmc::check(cr.d.thread == w.io_tid && cw.d.thread == w.io_tid, "C14", "wrong-thread", "I/O completed outside run()");
  w.stop_and_join();
  { auto r = std::move(reader); auto wr = std::move(writer); }   // close both ends
  w.finish();
  vmc::note(cw.d.str() + "/" + cr.d.str());
}

// ---- cancellation of a parked read, racing readiness; then the descriptor is used again --------------------------
// args: [when: 0 stop races (remote), 1 stop before start, 2 stop from the I/O thread][ext bytes written by the other side]
VMC_HARNESS(ep_cancel, "C14,C19,C02") {
  int mode = vmcrt::arg(0, 0), nbytes = vmcrt::arg(1, 2);
  ksim::Config cfg; cfg.pipe_capacity = 4;
  World w(cfg); Ctl cr, cr2, ci;
  w.start_loop();
  auto sched = w.ctx->get_scheduler();
  auto [reader, writer] = open_pipe(sched);
  int rfd = -1, wfd = -1;
  for (int fd = ksim::BASE; fd < ksim::BASE + 48; ++fd) if (ksim::pipe_bytes(fd) >= 0) { rfd = fd; wfd = fd + 1; break; }
  inplace_stop_source ss;
  if (mode == 1) ss.request_stop();
  cr.buf.reset(new std::byte[4]); cr.buf_size = 4;
  auto& rop = heap_connect(cr, async_read_some(reader, span<std::byte>(cr.buf.get(), 4)), IoRcv<>{&cr, ss.get_token()});
  std::thread ext([&] { if (nbytes) ksim::k_write(wfd, kData, nbytes); });
  std::thread stopper([&] { if (mode == 0) ss.request_stop(); });
  unifex::start(rop);
  stopper.join();
  if (mode == 2) {
    // request stop from inside the I/O thread: an item scheduled onto the loop does it
    struct StopRcv { inplace_stop_source* s; Ctl* c; void set_value() noexcept { s->request_stop(); c->signal('V', 0, 0); } void set_error(std::exception_ptr) noexcept {} void set_done() noexcept {} };
    auto& sop = heap_connect(ci, schedule(sched), StopRcv{&ss, &ci});
    unifex::start(sop);
  }
  ext.join();
  vmc::wait_until([&] { return cr.d.count > 0; });
  vmc::check(cr.d.how == 'V' || cr.d.how == 'D', "C14", "read-result", ("cancelled read completed with " + cr.d.str()).c_str());
  int left = ksim::pipe_bytes(rfd);
  if (cr.d.how == 'D') vmc::check(left == nbytes || !nbytes, "C14", "cancelled-read-consumed-data", "a read that completed with done consumed bytes from the pipe");
  else {
    vmc::check(cr.d.n >= 1 && cr.d.n <= nbytes && left == nbytes - cr.d.n, "C14", "read-result", ("read completed with " + cr.d.str()).c_str());
    vmc::check(std::memcmp(cr.got.data(), kData, cr.d.n) == 0, "C14", "data-corrupt", "bytes read differ from the bytes written");
  }
  if (mode == 1) vmc::check(cr.d.how == 'D' || nbytes > 0, "C14", "read-result", "pre-cancelled read on an empty pipe completed with a value");
  vmc::check(cr.d.thread == w.io_tid, "C14", "wrong-thread", "read completed outside run()");
  // the same descriptor is used again: what is (or arrives) in the pipe belongs to the next read
  int before = left;
  cr2.buf.reset(new std::byte[4]); cr2.buf_size = 4;
  auto& rop2 = heap_connect(cr2, async_read_some(reader, span<std::byte>(cr2.buf.get(), 4)), IoRcv<unstoppable_token>{&cr2});
  unifex::start(rop2);
  if (before == 0) ksim::k_write(wfd, kData + 5, 2);
  vmc::wait_until([&] { return cr2.d.count > 0; });
  vmc::check(cr2.d.how == 'V' && cr2.d.n >= 1, "C14", "later-read-affected", ("the read after a cancelled read completed with " + cr2.d.str()).c_str());
  const char* expect = before == 0 ? kData + 5 : kData + (nbytes - before);
  vmc::check(std::memcmp(cr2.got.data(), expect, cr2.d.n) == 0, "C14", "data-corrupt", "bytes of the later read are not the next bytes of the pipe");
  w.stop_and_join();
  { auto r = std::move(reader); auto wr = std::move(writer); }
  w.finish();
  vmc::note(cr.d.str() + ">" + cr2.d.str());
}

// a parked write (pipe full) cancelled while the other side drains the pipe.  args: [when: 0 remote, 1 before start, 2 I/O thread]
VMC_HARNESS(ep_cancel_w, "C14,C19,C02") {
  int mode = vmcrt::arg(0, 0);
  ksim::Config cfg; cfg.pipe_capacity = 2;
  World w(cfg); Ctl cw, cw2, ci;
  w.start_loop();
  auto sched = w.ctx->get_scheduler();
  auto [reader, writer] = open_pipe(sched);
  int rfd = -1;
  for (int fd = ksim::BASE; fd < ksim::BASE + 48; ++fd) if (ksim::pipe_bytes(fd) >= 0) { rfd = fd; break; }
  ksim::k_write(rfd + 1, "XY", 2);   // full
  inplace_stop_source ss;
  if (mode == 1) ss.request_stop();
  cw.buf.reset(new std::byte[2]); cw.buf_size = 2; std::memcpy(cw.buf.get(), kData, 2);
  auto& wop = heap_connect(cw, async_write_some(writer, span<const std::byte>(cw.buf.get(), 2)), IoRcv<>{&cw, ss.get_token()});
  char drained[2] = {0, 0};
  std::thread ext([&] { ksim::k_read(rfd, drained, 2); });
  std::thread stopper([&] { if (mode == 0) ss.request_stop(); });
  unifex::start(wop);
  stopper.join();
  if (mode == 2) {
    struct StopRcv { inplace_stop_source* s; Ctl* c; void set_value() noexcept { s->request_stop(); c->signal('V', 0, 0); } void set_error(std::exception_ptr) noexcept {} void set_done() noexcept {} };
    auto& sop = heap_connect(ci, schedule(sched), StopRcv{&ss, &ci});
    unifex::start(sop);
  }
  ext.join();
  vmc::wait_until([&] { return cw.d.count > 0; });
  vmc::check(drained[0] == 'X' && drained[1] == 'Y', "C14", "data-corrupt", "the bytes drained are not the bytes that were in the pipe");
  int in_pipe = ksim::pipe_bytes(rfd);
  if (cw.d.how == 'D') vmc::check(in_pipe == 0, "C14", "cancelled-write-wrote-data", "a write that completed with done put bytes into the pipe");
  else vmc::check(cw.d.how == 'V' && cw.d.n >= 1 && cw.d.n <= 2 && in_pipe == cw.d.n, "C14", "write-result", ("write completed with " + cw.d.str()).c_str());
  // the descriptor is used again
  cw2.buf.reset(new std::byte[1]); cw2.buf_size = 1; std::memcpy(cw2.buf.get(), "Z", 1);
  auto& wop2 = heap_connect(cw2, async_write_some(writer, span<const std::byte>(cw2.buf.get(), 1)), IoRcv<unstoppable_token>{&cw2});
  unifex::start(wop2);
  if (in_pipe == 2) { char b[2]; ksim::k_read(rfd, b, 2); in_pipe = 0; }
  vmc::wait_until([&] { return cw2.d.count > 0; });
  vmc::check(cw2.d.how == 'V' && cw2.d.n == 1, "C14", "later-write-affected", ("the write after a cancelled write completed with " + cw2.d.str()).c_str());
  char b[4] = {0}; long got = ksim::k_read(rfd, b, 4);
  vmc::check(got == in_pipe + 1 && b[got - 1] == 'Z' && (in_pipe == 0 || std::memcmp(b, kData, in_pipe) == 0), "C14", "data-corrupt", "pipe contents after the second write are wrong");
  w.stop_and_join();
  { auto r = std::move(reader); auto wr = std::move(writer); }
  w.finish();
  vmc::note(cw.d.str() + ">" + cw2.d.str());
}

// ---- descriptor reuse after a cancelled operation ---------------------------------------------------------------
// a parked read is cancelled, the pipe is closed, a new pipe gets the same descriptor numbers; a read on the new pipe
// must see exactly the new pipe's data.  args: [when: 0 remote stop, 1 stop before start]
VMC_HARNESS(ep_reuse, "C14") {
  int mode = vmcrt::arg(0, 0);
  ksim::Config cfg; cfg.pipe_capacity = 4;
  World w(cfg); Ctl cr, cr2;
  w.start_loop();
  auto sched = w.ctx->get_scheduler();
  inplace_stop_source ss;
  if (mode == 1) ss.request_stop();
  {
    auto [reader, writer] = open_pipe(sched);
    cr.buf.reset(new std::byte[4]); cr.buf_size = 4;
    auto& rop = heap_connect(cr, async_read_some(reader, span<std::byte>(cr.buf.get(), 4)), IoRcv<>{&cr, ss.get_token()});
    std::thread stopper([&] { if (mode == 0) ss.request_stop(); });
    unifex::start(rop);
    stopper.join();
    vmc::wait_until([&] { return cr.d.count > 0; });
    vmc::check(cr.d.how == 'D', "C14", "read-result", ("cancelled read on an empty pipe completed with " + cr.d.str()).c_str());
  }  // both ends closed
  auto [reader2, writer2] = open_pipe(sched);
  int rfd = -1;
  for (int fd = ksim::BASE; fd < ksim::BASE + 48; ++fd) if (ksim::pipe_bytes(fd) >= 0) { rfd = fd; break; }
  cr2.buf.reset(new std::byte[4]); cr2.buf_size = 4;
  auto& rop2 = heap_connect(cr2, async_read_some(reader2, span<std::byte>(cr2.buf.get(), 4)), IoRcv<unstoppable_token>{&cr2});
  std::thread ext([&] { ksim::k_write(rfd + 1, kData, 3); });
  unifex::start(rop2);
  ext.join();
  vmc::wait_until([&] { return cr2.d.count > 0; });
  vmc::check(cr2.d.how == 'V' && cr2.d.n >= 1 && cr2.d.n <= 3 && std::memcmp(cr2.got.data(), kData, cr2.d.n) == 0, "C14", "later-read-affected",
             ("read on a reused descriptor completed with " + cr2.d.str()).c_str());
  w.stop_and_join();
  { auto r = std::move(reader2); auto wr = std::move(writer2); }
  w.finish();
  vmc::note(cr2.d.str());
}

// ---- failed syscalls ----------------------------------------------------------------------------------------------
// args: [op: 0 read 1 write][nth call of readv/writev that fails][sticky][errno]
VMC_HARNESS(ep_fault, "C14") {
  int which = vmcrt::arg(0, 0), nth = vmcrt::arg(1, 0), sticky = vmcrt::arg(2, 1), err = vmcrt::arg(3, EIO);
  ksim::Config cfg; cfg.pipe_capacity = 2;
  cfg.fault_call = which == 0 ? ksim::C_READV : ksim::C_WRITEV; cfg.fault_nth = nth; cfg.fault_sticky = sticky != 0; cfg.fault_errno = err;
  World w(cfg); Ctl c;
  w.start_loop();
  auto sched = w.ctx->get_scheduler();
  auto [reader, writer] = open_pipe(sched);
  int rfd = -1;
  for (int fd = ksim::BASE; fd < ksim::BASE + 48; ++fd) if (ksim::pipe_bytes(fd) >= 0) { rfd = fd; break; }
  c.buf.reset(new std::byte[2]); c.buf_size = 2; std::memcpy(c.buf.get(), kData, 2);
  if (which == 0) {
    auto& op = heap_connect(c, async_read_some(reader, span<std::byte>(c.buf.get(), 2)), IoRcv<unstoppable_token>{&c});
    std::thread ext([&] { ksim::k_write(rfd + 1, kData, 2); });
    unifex::start(op);
    ext.join();
  } else {
    ksim::k_write(rfd + 1, kData, 2);   // pipe full: the write parks first
    auto& op = heap_connect(c, async_write_some(writer, span<const std::byte>(c.buf.get(), 2)), IoRcv<unstoppable_token>{&c});
    std::thread ext([&] { char b[2]; ksim::k_read(rfd, b, 2); });
    unifex::start(op);
    ext.join();
  }
  vmc::wait_until([&] { return c.d.count > 0; });
  if (c.d.how == 'E') vmc::check(c.d.ec == err, "C14", "wrong-error-code", ("the operation failed with errno " + std::to_string(err) + " but completed with error code " + std::to_string(c.d.ec)).c_str());
  else {
    // a value is possible only if the call that produced it was not the failing one
    int made = ksim::calls(cfg.fault_call);
    bool last_failed = sticky ? made > nth : made - 1 == nth;
    vmc::check(c.d.how == 'V' && c.d.n >= 1 && !last_failed, "C14", "fault-result", ("operation whose last syscall failed completed with " + c.d.str()).c_str());
  }
  w.stop_and_join();
  { auto r = std::move(reader); auto wr = std::move(writer); }
  w.finish();
  vmc::note(c.d.str());
}

// ---- conformance of the simulated kernel with the real one ------------------------------------------------------
// Every sequence of `depth` operations over {pipe write/read, epoll_ctl ADD/DEL, close of either end, eventfd
// write/read} is executed on real descriptors and on simulated ones; after every step the return value, errno and the
// complete epoll_wait(0) readiness report must agree.  Transfers are whole pages on a two-page pipe (the simulated
// pipe counts bytes, the real one page slots; whole pages are where the two coincide).  args: [depth]
#include <csignal>
#include <fcntl.h>
#include <sys/epoll.h>
#include <sys/eventfd.h>
#include <unistd.h>
extern "C" {
int __real_epoll_create1(int);
int __real_epoll_ctl(int, int, int, struct epoll_event*);
int __real_epoll_wait(int, struct epoll_event*, int, int);
int __real_eventfd(unsigned, int);
ssize_t __real_read(int, void*, size_t);
ssize_t __real_write(int, const void*, size_t);
int __real_close(int);
int __real_pipe2(int*, int);
}
namespace {
struct Side {
  bool sim; int ep, r, w, ev;
  int ctl(int op, int fd, uint32_t events, uint32_t tag) {
    epoll_event e{}; e.events = events; e.data.u32 = tag; errno = 0;
    int rc = sim ? epoll_ctl(ep, op, fd, &e) : __real_epoll_ctl(ep, op, fd, &e);
    return rc < 0 ? -errno : rc;
  }
  long rd(int fd, size_t n) { static char b[8192]; errno = 0; long rc = sim ? read(fd, b, n) : __real_read(fd, b, n); return rc < 0 ? -errno : rc; }
  long wr(int fd, size_t n) { static char b[8192]; errno = 0; long rc = sim ? write(fd, b, n) : __real_write(fd, b, n); return rc < 0 ? -errno : rc; }
  long wr8(int fd) { uint64_t v = 1; errno = 0; long rc = sim ? write(fd, &v, 8) : __real_write(fd, &v, 8); return rc < 0 ? -errno : rc; }
  long rd8(int fd) { uint64_t v = 0; errno = 0; long rc = sim ? read(fd, &v, 8) : __real_read(fd, &v, 8); return rc < 0 ? -errno : (long)(rc * 100 + (long)v); }
  int cl(int fd) { errno = 0; int rc = sim ? close(fd) : __real_close(fd); return rc < 0 ? -errno : rc; }
  std::string snapshot() {
    epoll_event evs[8]; errno = 0;
    int n = sim ? epoll_wait(ep, evs, 8, 0) : __real_epoll_wait(ep, evs, 8, 0);
    if (n < 0) return "E" + std::to_string(errno);
    std::vector<std::string> v;
    for (int i = 0; i < n; ++i) v.push_back(std::to_string(evs[i].data.u32) + ":" + std::to_string(evs[i].events));
    std::sort(v.begin(), v.end());
    std::string s; for (auto& x : v) s += x + ","; return s;
  }
};
}  // namespace
VMC_SEQ_HARNESS(ksim_conf, "C14") {
  int depth = vmcrt::arg(0, 4);
  constexpr size_t U = 4096;
  std::signal(SIGPIPE, SIG_IGN);
  ksim::Config cfg; cfg.pipe_capacity = 2 * U;
  ksim::reset(cfg);
  Side S{true, 0, 0, 0, 0}, R{false, 0, 0, 0, 0};
  S.ep = epoll_create1(0); int p[2]; pipe2(p, O_NONBLOCK); S.r = p[0]; S.w = p[1]; S.ev = eventfd(0, EFD_NONBLOCK);
  R.ep = __real_epoll_create1(0); __real_pipe2(p, O_NONBLOCK); R.r = p[0]; R.w = p[1]; R.ev = __real_eventfd(0, EFD_NONBLOCK);
  fcntl(R.w, F_SETPIPE_SZ, (int)(2 * U));
  bool r_open = true, w_open = true;
  std::string trace;
  for (int i = 0; i < depth; ++i) {
    int op = vmc::choose(13);
    // the real descriptor number of a closed end may not be touched again (it could be anybody's); the simulator's
    // EBADF for that case is checked by construction
    if ((!r_open && (op == 1 || op == 2 || op == 3 || op == 5 || op == 8)) || (!w_open && (op == 0 || op == 4 || op == 6 || op == 9))) { trace += "-"; continue; }
    long a = 0, b = 0;
    auto both = [&](auto f) { a = f(S); b = f(R); };
    switch (op) {
      case 0: both([&](Side& s) { return s.wr(s.w, U); }); break;
      case 1: both([&](Side& s) { return s.rd(s.r, U); }); break;
      case 2: both([&](Side& s) { return s.rd(s.r, 2 * U); }); break;
      case 3: both([&](Side& s) { return (long)s.ctl(EPOLL_CTL_ADD, s.r, EPOLLIN, 1); }); break;
      case 4: both([&](Side& s) { return (long)s.ctl(EPOLL_CTL_ADD, s.w, EPOLLOUT, 2); }); break;
      case 5: both([&](Side& s) { return (long)s.ctl(EPOLL_CTL_DEL, s.r, 0, 0); }); break;
      case 6: both([&](Side& s) { return (long)s.ctl(EPOLL_CTL_DEL, s.w, 0, 0); }); break;
      case 7: both([&](Side& s) { return (long)s.ctl(EPOLL_CTL_MOD, s.r, EPOLLIN | EPOLLRDHUP, 4); }); break;
      case 8: both([&](Side& s) { return (long)s.cl(s.r); }); r_open = false; break;
      case 9: both([&](Side& s) { return (long)s.cl(s.w); }); w_open = false; break;
      case 10: both([&](Side& s) { return s.wr8(s.ev); }); break;
      case 11: both([&](Side& s) { return s.rd8(s.ev); }); break;
      default: both([&](Side& s) { return (long)s.ctl(EPOLL_CTL_ADD, s.ev, EPOLLIN, 3); }); break;
    }
    trace += std::to_string(op) + "=" + std::to_string(a) + " ";
    if (a != b) vmcrt::fail("!", "ksim-conformance", ("simulated kernel returned " + std::to_string(a) + ", the real one " + std::to_string(b) + " after: " + trace).c_str());
    std::string sa = S.snapshot(), sb = R.snapshot();
    if (sa != sb) vmcrt::fail("!", "ksim-conformance", ("epoll readiness differs: simulated [" + sa + "] real [" + sb + "] after: " + trace).c_str());
  }
  if (r_open) { S.cl(S.r); R.cl(R.r); }
  if (w_open) { S.cl(S.w); R.cl(R.w); }
  S.cl(S.ev); S.cl(S.ep); R.cl(R.ev); R.cl(R.ep);
  std::string l = ksim::leaks();
  if (!l.empty()) vmcrt::fail("!", "ksim-conformance", ("simulated descriptors left: " + l).c_str());
  vmc::note("conforms");
}
