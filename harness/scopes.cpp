// C08 — async_scope v0 / v1 / v2: join completes only after all admitted work finished, and does complete
#include <vmc_main.hpp>
#include <probes.hpp>
#include <unifex/v0/async_scope.hpp>
#include <unifex/v1/async_scope.hpp>
#include <unifex/v2/async_scope.hpp>
#include <unifex/nest.hpp>
#include <unifex/spawn_detached.hpp>
using namespace unifex;
using kit::RcvState; using kit::LeafState;

namespace {
// join receiver: the moment it is signalled, no admitted operation may still be running
struct JoinRcv {
  RcvState* s; LeafState* a; LeafState* b; bool* closed_seen;
  void check() noexcept {
    if (a && a->pending()) vmcrt::fail("C08", "join-early", "join/complete/cleanup completed while a nested operation was still running");
    if (b && b->pending()) vmcrt::fail("C08", "join-early", "join/complete/cleanup completed while a nested operation was still running");
  }
  void set_value() noexcept { check(); s->signal('V'); }
  void set_done() noexcept { check(); s->signal('D'); }
  template <class E> void set_error(E&&) noexcept { s->signal('E'); }
  friend unstoppable_token tag_invoke(tag_t<get_stop_token>, const JoinRcv&) noexcept { return {}; }
  friend inline_scheduler tag_invoke(tag_t<get_scheduler>, const JoinRcv&) noexcept { return {}; }
};
}  // namespace

// v2: nest+start on T1, completion of the leaf on T2, join on T0 (two joins when arg0==1), late nest after join
VMC_HARNESS(scope_v2, "C08,C01") {
  bool two_joins = vmcrt::arg(0, 0) != 0;
  v2::async_scope scope;
  LeafState a, late; a.props = late.props = "C08,C02";
  RcvState rx, rj, rj2, rlate; rx.props = rj.props = rj2.props = rlate.props = "C08,C01";
  inplace_stop_source never;
  bool admit_done = false;
  std::thread t1([&] {
    auto op = unifex::connect(scope.nest(kit::Leaf{&a}), kit::Rcv<>{&rx, never.get_token()});
    unifex::start(op);
    admit_done = true;
    vmc::wait_until([&] { return rx.count > 0; });
  });
  std::thread t2([&] {
    vmc::wait_until([&] { return a.started > 0 || admit_done; });
    if (a.pending()) kit::complete(a, 'V', 3);
  });
  auto jop = unifex::connect(scope.join(), JoinRcv{&rj, &a, nullptr, nullptr});
  auto jop2 = unifex::connect(scope.join(), JoinRcv{&rj2, &a, nullptr, nullptr});
  std::thread t3([&] { if (two_joins) unifex::start(jop2); });
  unifex::start(jop);
  t1.join(); t2.join(); t3.join();
  vmc::check(rj.count == 1, "C08,C01", "join-lost", "join() did not complete although the scope is closed and all nested work finished");
  if (two_joins) vmc::check(rj2.count == 1, "C08,C01", "join-lost", "a second racing join() did not complete exactly once");
  vmc::check(rx.count == 1, "C08,C01", "nested-lost", "nested operation did not complete exactly once");
  // admitted before the close => ran and delivered its value; refused => done without ever starting the child
  if (a.started) vmc::check(rx.how == 'V' && rx.value == 3, "C08", "nested-result", "admitted nested operation did not deliver its result");
  else vmc::check(rx.how == 'D', "C08", "late-nest", "operation nested after the close was not completed with done");
  // work nested after the scope is closed is never started and completes with done
  auto lop = unifex::connect(scope.nest(kit::Leaf{&late}), kit::Rcv<>{&rlate, never.get_token()});
  unifex::start(lop);
  vmc::check(rlate.count == 1 && rlate.how == 'D' && late.started == 0, "C08", "late-nest", "work nested after the scope was closed was started or did not complete with done");
  vmc::check(scope.joined(), "C08", "not-joined", "scope reports outstanding work after join completed");
  vmc::note(std::string(a.started ? "admitted" : "refused"));
}

// v2: an unconsumed nest sender holds the scope open until it is discarded (arg0=0) or run (arg0=1)
VMC_HARNESS(scope_v2_unconsumed, "C08") {
  int mode = vmcrt::arg(0, 0);
  v2::async_scope scope;
  LeafState a; a.props = "C08,C02"; RcvState rx, rj; rx.props = rj.props = "C08,C01";
  inplace_stop_source never;
  bool released = false;
  auto jop = unifex::connect(scope.join(), JoinRcv{&rj, &a, nullptr, nullptr});
  {
    auto snd = scope.nest(kit::Leaf{&a});
    std::thread j([&] { unifex::start(jop); });
    if (mode == 0) {
      vmc::check(rj.count == 0 || false, "C08", "join-early", "join completed while an unconsumed nest sender still held a reference");
      { auto dropped = std::move(snd); released = true; }
    } else {
      auto op = unifex::connect(std::move(snd), kit::Rcv<>{&rx, never.get_token()});
      vmc::check(rj.count == 0, "C08", "join-early", "join completed while a connected, unstarted nested operation held a reference");
      unifex::start(op);
      vmc::check(rj.count == 0, "C08", "join-early", "join completed while a nested operation was running");
      kit::complete(a, 'V', 1);
      vmc::wait_until([&] { return rx.count > 0; });
    }
    j.join();
  }
  vmc::wait_until([&] { return rj.count > 0; });
  vmc::check(rj.count == 1, "C08,C01", "join-lost", "join() did not complete after the last reference was dropped");
  vmc::note(mode ? "run" : "dropped");
}

// v1: detached_spawn (arg0=0) / attach (arg0=1) on T1, completion on T2, complete()/cleanup()/request_stop on T0
// arg1: 0 = complete(), 1 = cleanup(), 2 = request_stop() then complete()
VMC_HARNESS(scope_v1, "C08,C01,C04") {
  int how_admit = vmcrt::arg(0, 0), how_join = vmcrt::arg(1, 0);
  v1::async_scope scope;
  LeafState a, late; a.props = late.props = "C08,C02";
  RcvState rx, rj; rx.props = rj.props = "C08,C01";
  inplace_stop_source never;
  bool admit_done = false;
  std::thread t1([&] {
    if (how_admit == 0) {
      scope.detached_spawn(kit::VLeaf{&a});
      admit_done = true;
    } else {
      auto op = unifex::connect(scope.attach(kit::Leaf{&a}), kit::Rcv<>{&rx, never.get_token()});
      unifex::start(op);
      admit_done = true;
      vmc::wait_until([&] { return rx.count > 0; });
    }
  });
  bool stop_returned = false; bool a_pending_at_stop = false;
  std::thread t2([&] {
    vmc::wait_until([&] { return a.started > 0 || admit_done; });
    if (a.pending()) kit::complete(a, 'V', 3);
  });
  auto finish = [&](auto snd) {
    auto jop = unifex::connect(std::move(snd), JoinRcv{&rj, &a, nullptr, nullptr});
    unifex::start(jop);
    vmc::wait_until([&] { return rj.count > 0; });
  };
  if (how_join == 0) finish(scope.complete());
  else if (how_join == 1) finish(scope.cleanup());
  else {
    scope.request_stop();
    // request_stop() returned: every outstanding spawned operation has observed the stop request
    if (a.pending()) vmc::check(a.stop_seen, "C08,C04", "stop-not-delivered", "request_stop() returned but running spawned work did not observe a stop request");
    finish(scope.complete());
  }
  t1.join(); t2.join();
  vmc::check(rj.count == 1, "C08,C01", "join-lost", "complete()/cleanup() did not complete exactly once");
  if (how_admit == 1) {
    vmc::check(rx.count == 1, "C08,C01", "nested-lost", "attached operation did not complete exactly once");
    if (!a.started) vmc::check(rx.how == 'D', "C08", "late-nest", "work attached after the close did not complete with done");
  }
  scope.detached_spawn(kit::VLeaf{&late});
  vmc::check(late.started == 0 && late.ops_alive == 0, "C08", "late-nest", "work spawned after the scope was closed was started or leaked");
  vmc::note(std::string(a.started ? "admitted" : "refused") + (a.stop_seen ? " stop" : ""));
}

// v0: spawn on T1, completion on T2, cleanup()/complete() on T0. arg0: 0 complete, 1 cleanup
VMC_HARNESS(scope_v0, "C08,C01,C04") {
  int how_join = vmcrt::arg(0, 0);
  v0::async_scope scope;
  LeafState a, late; a.props = late.props = "C08,C02";
  RcvState rj; rj.props = "C08,C01";
  bool admit_done = false;
  std::thread t1([&] { scope.spawn(kit::VLeaf{&a}); admit_done = true; });
  std::thread t2([&] {
    vmc::wait_until([&] { return a.started > 0 || admit_done; });
    if (a.pending()) kit::complete(a, 'V', 0);
  });
  auto finish = [&](auto snd) {
    auto jop = unifex::connect(std::move(snd), JoinRcv{&rj, &a, nullptr, nullptr});
    unifex::start(jop);
    vmc::wait_until([&] { return rj.count > 0; });
  };
  if (how_join == 0) finish(scope.complete()); else finish(scope.cleanup());
  t1.join(); t2.join();
  vmc::check(rj.count == 1, "C08,C01", "join-lost", "v0 complete()/cleanup() did not complete exactly once");
  vmc::check(a.ops_alive == 0, "C08,C02", "op-leak", "v0 spawned operation not destroyed exactly once");
  scope.spawn(kit::VLeaf{&late});
  vmc::check(late.started == 0 && late.ops_alive == 0, "C08", "late-nest", "v0: work spawned after the scope was closed was started or leaked");
  vmc::note(std::string(a.started ? "admitted" : "refused") + (a.stop_seen ? " stop" : ""));
}

// close racing admission racing the last completion: X is admitted and running; T1 starts join; T2 completes X;
// T3 tries to nest Y (late or not). join must complete exactly once, after X (and Y if admitted) finished.
// arg0: 0 = v2 scope (nest), 1 = v1 scope (attach), 2 = v1 scope (detached_spawn)
VMC_HARNESS(scope_close_race, "C08,C01") {
  int kind = vmcrt::arg(0, 0);
  std::optional<v2::async_scope> s2o; std::optional<v1::async_scope> s1o;
  if (kind == 0) s2o.emplace(); else s1o.emplace();
  LeafState x, y; x.props = y.props = "C08,C02";
  RcvState rx, ry, rj; rx.props = ry.props = rj.props = "C08,C01";
  inplace_stop_source never;
  auto run = [&](auto make_x, auto make_y, auto join_sender) {
    auto xop = unifex::connect(make_x(), kit::Rcv<>{&rx, never.get_token()});
    unifex::start(xop);
    vmc::check(x.started == 1, "C08", "admission", "work nested in an open scope was not started");
    auto jop = unifex::connect(join_sender(), JoinRcv{&rj, &x, &y, nullptr});
    std::thread t1([&] { unifex::start(jop); });
    std::thread t2([&] { kit::complete(x, 'V', 1); });
    bool y_done = false;
    std::thread t3([&] {
      auto yop = unifex::connect(make_y(), kit::Rcv<>{&ry, never.get_token()});
      unifex::start(yop);
      y_done = true;
      if (y.pending()) kit::complete(y, 'V', 2);
      vmc::wait_until([&] { return ry.count > 0; });
    });
    t1.join(); t2.join(); t3.join();
    vmc::wait_until([&] { return rj.count > 0; });
  };
  if (kind == 0) { auto& s2 = *s2o; run([&] { return s2.nest(kit::Leaf{&x}); }, [&] { return s2.nest(kit::Leaf{&y}); }, [&] { return s2.join(); }); }
  else { auto& s1 = *s1o; run([&] { return s1.attach(kit::Leaf{&x}); }, [&] { return s1.attach(kit::Leaf{&y}); }, [&] { return s1.complete(); }); }
  vmc::check(rj.count == 1, "C08,C01", "join-lost", "join did not complete exactly once although the scope is closed and all nested work finished");
  vmc::check(rx.count == 1 && rx.how == 'V', "C08", "nested-result", "admitted operation did not deliver its result");
  vmc::check(ry.count == 1, "C08,C01", "nested-lost", "racing nested operation did not complete exactly once");
  if (!y.started) vmc::check(ry.how == 'D', "C08", "late-nest", "work nested after the close did not complete with done");
  vmc::note(std::string(y.started ? "y-admitted" : "y-refused"));
}

// v1 (arg0=0) / v0 (arg0=1) scope, sequential: every sequence of <= arg1 operations over
//   {spawn A, spawn B, start complete(), start cleanup(), request_stop(), finish A, finish B}
// against a reference model: a leaf admitted before the close runs, a later one is never started; once request_stop()
// or a started cleanup() returned, every pending leaf has seen the stop request - whatever closed the scope first;
// each started join completes exactly once, and only when the scope is closed and nothing is pending. At the end of
// the sequence the scope is stopped and the leaves that saw the stop complete with done: every join must then complete.
// (Added for seed C08e: a request_stop() after complete() was enumerated nowhere.)
template <class Op>
struct InPlace { Op op; template <class F> explicit InPlace(F&& f) : op(f()) {} };
template <class Scope>
static void scope_ops_run(int depth) {
  Scope scope;
  LeafState l[2]; l[0].props = l[1].props = "C08,C02"; l[0].name = "A"; l[1].name = "B";
  RcvState rj[2]; rj[0].props = rj[1].props = "C08,C01";
  bool spawned[2] = {false, false}, joined[2] = {false, false};
  bool closed = false, stopped = false;
  using cop_t = decltype(unifex::connect(scope.complete(), JoinRcv{nullptr, nullptr, nullptr, nullptr}));
  using kop_t = decltype(unifex::connect(scope.cleanup(), JoinRcv{nullptr, nullptr, nullptr, nullptr}));
  std::optional<InPlace<cop_t>> cop; std::optional<InPlace<kop_t>> kop;   // operation states do not move: built in place
  std::string trace;
  auto invariant = [&](const char* after) {
    for (int i = 0; i < 2; ++i) {
      if (stopped && l[i].pending())
        vmc::check(l[i].stop_seen, "C08,C04", "stop-not-delivered", (std::string("after ") + after + " [" + trace + "]: request_stop()/cleanup() returned but outstanding spawned work did not observe a stop request").c_str());
      if (joined[i]) {
        bool should = closed && !l[0].pending() && !l[1].pending();
        vmc::check(rj[i].count == (should ? 1 : 0), "C08,C01", should ? "join-lost" : "join-early", (std::string("after ") + after + " [" + trace + "]: started join completed " + std::to_string(rj[i].count) + " times").c_str());
      }
    }
  };
  for (int step = 0; step < depth; ++step) {
    int op = vmc::choose(7);
    trace += char('0' + op);
    switch (op) {
      case 0: case 1: {
        int i = op;
        if (spawned[i]) break;
        spawned[i] = true;
        if constexpr (std::is_same_v<Scope, v0::async_scope>) scope.spawn(kit::VLeaf{&l[i]});
        else scope.detached_spawn(kit::VLeaf{&l[i]});
        if (closed) vmc::check(l[i].started == 0 && l[i].ops_alive == 0, "C08", "late-nest", "work spawned after the scope was closed was started or leaked");
        else vmc::check(l[i].started == 1, "C08", "admitted-not-started", "work spawned in an open scope was not started");
        break;
      }
      case 2:
        if (joined[0]) break;
        joined[0] = true; closed = true;
        cop.emplace([&] { return unifex::connect(scope.complete(), JoinRcv{&rj[0], &l[0], &l[1], nullptr}); });
        unifex::start(cop->op);
        break;
      case 3:
        if (joined[1]) break;
        joined[1] = true; closed = true; stopped = true;
        kop.emplace([&] { return unifex::connect(scope.cleanup(), JoinRcv{&rj[1], &l[0], &l[1], nullptr}); });
        unifex::start(kop->op);
        break;
      case 4: scope.request_stop(); closed = true; stopped = true; break;
      case 5: case 6: { int i = op - 5; if (l[i].pending()) kit::complete(l[i], 'V'); break; }
    }
    invariant("step");
  }
  // wind down: stop, let the stopped leaves finish, join if nobody did
  scope.request_stop(); closed = true; stopped = true;
  invariant("final request_stop()");
  for (int i = 0; i < 2; ++i) if (l[i].pending()) kit::complete(l[i], 'D');
  if (!joined[0]) { joined[0] = true; cop.emplace([&] { return unifex::connect(scope.complete(), JoinRcv{&rj[0], &l[0], &l[1], nullptr}); }); unifex::start(cop->op); }
  invariant("wind-down");
  for (int i = 0; i < 2; ++i) vmc::check(l[i].ops_alive == 0, "C08,C02", "op-leaked", "a spawned operation state outlived its completion");
  vmc::note(std::string(rj[0].count ? "c" : "") + (rj[1].count ? "k" : "") + (l[0].stop_seen ? "a" : "") + (l[1].stop_seen ? "b" : "") + (l[0].started ? "A" : "") + (l[1].started ? "B" : ""));
}
VMC_HARNESS(scope_ops, "C08,C01,C04") {
  int which = vmcrt::arg(0, 0), depth = vmcrt::arg(1, 4);
  if (which == 0) scope_ops_run<v1::async_scope>(depth); else scope_ops_run<v0::async_scope>(depth);
}
