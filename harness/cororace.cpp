// C10 — task<> under real thread interleavings: the awaited sender is completed by one thread while another requests
// stop on the consumer's token (the stop-request thunk forwards it to the task's scheduler and joins the forwarding
// operation with the task's completion through a reference count), with the task running on an inline scheduler or on
// a manual_event_loop thread.  The outer operation, the coroutine frames (operator new) and the leaf operation are all
// heap objects freed at completion, so anything touched after the completion that destroyed it is an ASan report.
#include <vmc_main.hpp>
#include <probes.hpp>
#include <unifex/task.hpp>
#include <unifex/manual_event_loop.hpp>
#include <unifex/inline_scheduler.hpp>
#include <unifex/on.hpp>
#include <unifex/then.hpp>
using namespace unifex;

namespace {
task<int> child(kit::LeafState* ls) { int v = co_await kit::Leaf{ls}; co_return v + 1; }
task<int> parent(kit::LeafState* ls) { int v = co_await child(ls); co_return v + 10; }
task<int> two_steps(kit::LeafState* a, kit::LeafState* b) { int v = co_await kit::Leaf{a}; int w = co_await kit::Leaf{b}; co_return v + w; }
}  // namespace

// args: [shape: 0 task, 1 nested task, 2 two awaits][scheduler: 0 inline, 1 event loop thread, 2 event loop run by two threads
// (a multi-threaded context, like static_thread_pool: the task's completion and the forwarded stop request may then run on
// different threads)][leaf outcome after stop: 0 value, 1 done]
VMC_HARNESS(coro_race_stop, "C10,C02,C01") {
  int shape = vmcrt::arg(0, 0), sched = vmcrt::arg(1, 0), done_after_stop = vmcrt::arg(2, 0);
  kit::LeafState la, lb; la.props = lb.props = "C10,C02"; la.name = "leaf-a"; lb.name = "leaf-b";
  kit::RcvState rs; rs.props = "C10,C01"; kit::FreeCtl ctl;
  inplace_stop_source ss;
  manual_event_loop loop;
  std::optional<std::thread> lt, lt2;
  if (sched >= 1) lt.emplace([&] { loop.run(); });
  if (sched == 2) lt2.emplace([&] { loop.run(); });
  auto mk = [&] { return shape == 0 ? child(&la) : shape == 1 ? parent(&la) : two_steps(&la, &lb); };
  void* raw = nullptr;
  auto start_it = [&](auto snd) {
    using R = kit::FreeingRcv<inline_scheduler, inplace_stop_token>;
    auto* h = kit::make_heap_op(std::move(snd), R{&rs, &ctl, ss.get_token(), inline_scheduler{}}, ctl);
    raw = h;
    unifex::start(h->op);
  };
  std::thread completer([&] {
    vmc::wait_until([&] { return la.pending() || rs.count > 0; });
    if (la.pending()) kit::complete(la, (done_after_stop && la.stop_seen) ? 'D' : 'V', 5);
    if (shape == 2) {
      vmc::wait_until([&] { return lb.pending() || rs.count > 0; });
      if (lb.pending()) kit::complete(lb, (done_after_stop && lb.stop_seen) ? 'D' : 'V', 7);
    }
  });
  std::thread stopper([&] { ss.request_stop(); });
  if (sched == 0) start_it(mk()); else start_it(on(loop.get_scheduler(), mk()));
  completer.join(); stopper.join();
  vmc::wait_until([&] { return rs.count > 0; });
  if (sched >= 1) { loop.stop(); lt->join(); if (lt2) lt2->join(); }
  vmc::check(rs.count == 1, "C10,C01", "completed-twice", "the task's receiver was not completed exactly once");
  vmc::check(rs.how == 'V' || rs.how == 'D', "C10", "task-result", ("task completed with " + rs.str()).c_str());
  if (rs.how == 'V') vmc::check(rs.value == (shape == 0 ? 6 : shape == 1 ? 16 : 12), "C10", "task-result", ("task completed with the wrong value " + rs.str()).c_str());
  vmc::check(ctl.freed && la.ops_alive == 0 && lb.ops_alive == 0, "C10,C02", "op-leak", "an operation state is still alive after the task completed");
  vmc::note(rs.str());
}
