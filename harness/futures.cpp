// C09 — futures (spawn_future) and spawn_detached; also C02 (shared state freed once)
#include <vmc_main.hpp>
#include <probes.hpp>
#include <alloc.hpp>
#include <unifex/v1/async_scope.hpp>
#include <unifex/v2/async_scope.hpp>
#include <unifex/spawn_future.hpp>
#include <unifex/spawn_detached.hpp>
#include <unifex/sync_wait.hpp>
using namespace unifex;
using kit::RcvState; using kit::LeafState;

namespace {
struct JoinRcv {
  RcvState* s;
  void set_value() noexcept { s->signal('V'); }
  void set_done() noexcept { s->signal('D'); }
  template <class E> void set_error(E&&) noexcept { s->signal('E'); }
  friend unstoppable_token tag_invoke(tag_t<get_stop_token>, const JoinRcv&) noexcept { return {}; }
  friend inline_scheduler tag_invoke(tag_t<get_scheduler>, const JoinRcv&) noexcept { return {}; }
};
template <class Scope> auto join_of(Scope& s) { if constexpr (std::is_same_v<Scope, v2::async_scope>) return s.join(); else return s.complete(); }

// spawned leaf completes (arg1: 0 V, 1 E, 2 D) on T1; the future is awaited on T0 with a stop request from T2
// (mode 0), dropped (mode 1), or awaited after the leaf completed with stop already requested (mode 2)
template <class Scope>
void future_body() {
  int mode = vmcrt::arg(0, 0), outcome = vmcrt::arg(1, 0);
  kit::AllocLedger led; led.props = "C09,C02";
  LeafState a; a.props = "C09,C02";
  RcvState rf, rj; rf.props = rj.props = "C09,C01";
  inplace_stop_source src;
  {
    Scope scope;
    {
      auto fut = spawn_future(kit::Leaf{&a}, scope, kit::counting_allocator<std::byte>{&led});
      vmc::check(a.started == 1, "C09", "not-started", "spawn_future in an open scope did not start the operation");
      std::thread t1([&] { kit::complete(a, "VED"[outcome], 5); });
      if (mode == 0) {
        auto op = unifex::connect(std::move(fut), kit::Rcv<>{&rf, src.get_token()});
        std::thread t2([&] { src.request_stop(); });
        unifex::start(op);
        t1.join(); t2.join();
        vmc::wait_until([&] { return rf.count > 0; });
      } else if (mode == 1) {
        bool completed_before_drop = a.completed > 0;
        { auto dropped = std::move(fut); }
        // dropping a future requests stop on a still-running spawned operation
        if (!completed_before_drop && a.pending()) vmc::check(a.stop_seen, "C09,C04", "drop-no-stop", "dropping a future did not request stop on the spawned operation");
        t1.join();
      } else {
        t1.join();
        src.request_stop();
        auto op = unifex::connect(std::move(fut), kit::Rcv<>{&rf, src.get_token()});
        unifex::start(op);
        vmc::check(rf.count == 1, "C09,C01", "not-once", "future of a completed operation did not complete");
        vmc::check(rf.how == "VED"[outcome], "C09", "result-dropped", "a result already available when the future is awaited was not delivered");
      }
    }
    if (mode != 1) {
      vmc::check(rf.count == 1, "C09,C01", "not-once", "future not completed exactly once");
      char want = "VED"[outcome];
      vmc::check(rf.how == want || rf.how == 'D', "C09", "wrong-channel", "future completed on a channel the spawned operation did not produce");
      if (rf.how == 'V') vmc::check(rf.value == 5, "C09", "wrong-value", "future delivered a value different from the operation's");
      if (rf.how == 'E') vmc::check(rf.err_tag == 5, "C09", "wrong-error", "future delivered a different error");
      if (rf.how == 'D' && want != 'D') vmc::check(a.stop_seen || a.completed, "C09,C04", "cancel-no-stop", "cancelling a future did not request stop on the spawned operation");
    }
    auto jop = unifex::connect(join_of(scope), JoinRcv{&rj});
    unifex::start(jop);
    vmc::check(rj.count == 1, "C09,C08", "join-lost", "scope join did not complete after the future was consumed/dropped and the operation finished");
  }
  vmc::check(a.ops_alive == 0, "C09,C02", "op-leak", "spawned operation state not destroyed exactly once");
  vmc::check(led.allocs == 1 && led.live == 0, "C09,C02", "shared-state", "the heap state shared by future and operation was not freed exactly once");
  vmc::note(rf.str() + (a.stop_seen ? " stop" : ""));
}
}  // namespace
VMC_HARNESS(fut_v2, "C09,C02,C01,C04") { future_body<v2::async_scope>(); }
VMC_HARNESS(fut_v1, "C09,C02,C01,C04") { future_body<v1::async_scope>(); }


// ---- tracked payload through a future, with a throwing copy/move ------------------------------------------------------
// The spawned leaf completes with a tracked Payload on T1 while T0 awaits (mode 0) or drops (mode 1) the future; the n-th
// construction of a Payload (data choice, 0 = never) throws.  A value that cannot be stored turns the result into an error;
// whatever the interleaving, every Payload that was constructed is destroyed exactly once, none is destroyed that was
// never constructed (storage re-interpreted on the strength of a stale state), and the exception object is not leaked.
namespace {
struct PLedger { int live = 0, made = 0, ctor_calls = 0, throw_at = 0; };
PLedger* g_pl = nullptr;
struct payload_fault { int n; };
struct Payload {
  static constexpr unsigned kMagic = 0xC0FFEE11u;
  unsigned magic = 0; int tag = 0;
  explicit Payload(int t) : tag(t) { born(); }
  Payload(Payload&& o) : tag(o.tag) { o.check("moved from"); maybe_throw(); born(); }
  Payload(const Payload& o) : tag(o.tag) { o.check("copied from"); maybe_throw(); born(); }
  Payload& operator=(Payload&&) = delete;
  ~Payload() {
    if (magic != kMagic) vmcrt::fail("C09,C02", "destroyed-never-constructed", "a result object was destroyed that had never been constructed (or was destroyed twice)");
    magic = 0xDEADu; --g_pl->live;
  }
  void check(const char* what) const { if (magic != kMagic) vmcrt::fail("C09,C02", "payload-read-after-destroy", (std::string("a result object was ") + what + " after it had been destroyed / before it was constructed").c_str()); }
  void born() { magic = kMagic; ++g_pl->live; ++g_pl->made; }
  static void maybe_throw() { if (++g_pl->ctor_calls == g_pl->throw_at) throw payload_fault{g_pl->ctor_calls}; }
};
struct PLeafState { void* op = nullptr; void (*fire)(void*) = nullptr; int started = 0, completed = 0, alive = 0; bool stop_seen = false; };
struct PLeaf {
  PLeafState* st;
  template <template <class...> class V, template <class...> class T> using value_types = V<T<Payload>>;
  template <template <class...> class V> using error_types = V<std::exception_ptr>;
  static constexpr bool sends_done = true;
  template <class R>
  struct Op {
    PLeafState* st; R r;
    struct Cb { PLeafState* st; void operator()() noexcept { st->stop_seen = true; } };
    std::optional<typename stop_token_type_t<R>::template callback_type<Cb>> cb;
    Op(PLeafState* s, R&& rr) : st(s), r((R&&)rr) { ++st->alive; }
    Op(Op&&) = delete;
    ~Op() { --st->alive; }
    void start() noexcept {
      st->op = this;
      st->fire = [](void* p) { auto* self = static_cast<Op*>(p); self->cb.reset(); ++self->st->completed; Payload v(7);
        // (a receiver that takes its values by value constructs them in the caller: the sender reports such a throw itself,
        // as just() does; the receiver has not been entered, so it is still intact)
        try { unifex::set_value(std::move(self->r), std::move(v)); } catch (...) { unifex::set_error(std::move(self->r), std::current_exception()); } };
      cb.emplace(get_stop_token(r), Cb{st});
      VMC_TSAN_REL(st);
      ++st->started;
    }
  };
  template <class R> Op<std::decay_t<R>> connect(R&& r) const& { return Op<std::decay_t<R>>{st, (R&&)r}; }
};
struct PRcv {
  RcvState* s; int* tag; inplace_stop_token tok{};
  void set_value(Payload&& p) noexcept { p.check("delivered"); *tag = p.tag; s->signal('V'); }
  void set_value(const Payload& p) noexcept { p.check("delivered"); *tag = p.tag; s->signal('V'); }
  void set_error(std::exception_ptr e) noexcept { try { std::rethrow_exception(e); } catch (const payload_fault& f) { s->err_tag = f.n; } catch (...) { s->err_tag = -2; } s->signal('E'); }
  void set_done() noexcept { s->signal('D'); }
  friend inplace_stop_token tag_invoke(tag_t<get_stop_token>, const PRcv& r) noexcept { return r.tok; }
  friend inline_scheduler tag_invoke(tag_t<get_scheduler>, const PRcv&) noexcept { return {}; }
};
template <class Scope>
void payload_body() {
  int mode = vmcrt::arg(0, 0);
  PLedger pl; g_pl = &pl;
  pl.throw_at = vmc::choose(5);   // 0 = never, else the n-th Payload copy/move throws
  kit::AllocLedger led; led.props = "C09,C02";
  PLeafState a; RcvState rf, rj; rf.props = rj.props = "C09,C01"; int got_tag = -1;
  inplace_stop_source never;
  {
    Scope scope;
    {
      auto fut = spawn_future(PLeaf{&a}, scope, kit::counting_allocator<std::byte>{&led});
      std::thread t1([&] { VMC_TSAN_ACQ(&a); a.fire(a.op); });
      if (mode == 0) {
        auto op = unifex::connect(std::move(fut), PRcv{&rf, &got_tag, never.get_token()});
        unifex::start(op);
        t1.join();
        vmc::wait_until([&] { return rf.count > 0; });
      } else {
        { auto dropped = std::move(fut); }
        t1.join();
      }
    }
    if (mode == 0) {
      vmc::check(rf.count == 1, "C09,C01", "not-once", "future not completed exactly once");
      if (rf.how == 'V') vmc::check(got_tag == 7, "C09", "wrong-value", "future delivered a value different from the operation's");
      if (rf.how == 'E') vmc::check(rf.err_tag == pl.throw_at && pl.throw_at != 0, "C09,C05", "wrong-error", "future delivered an error that is not the exception thrown while storing the value");
      if (pl.throw_at == 0) vmc::check(rf.how == 'V', "C09", "wrong-channel", "future of a value completion did not deliver the value");
    }
    auto jop = unifex::connect(join_of(scope), JoinRcv{&rj});
    unifex::start(jop);
    vmc::check(rj.count == 1, "C09,C08", "join-lost", "scope join did not complete after the future was consumed/dropped and the operation finished");
  }
  vmc::check(a.alive == 0, "C09,C02", "op-leak", "spawned operation state not destroyed exactly once");
  vmc::check(pl.live == 0, "C09,C02", "result-leak", "result objects constructed and destroyed do not balance: " + std::to_string(pl.live) + " still alive");
  vmc::check(led.allocs == 1 && led.live == 0, "C09,C02", "shared-state", "the heap state shared by future and operation was not freed exactly once");
  g_pl = nullptr;
  vmc::note((mode == 0 ? rf.str() : std::string("drop")) + " t" + std::to_string(pl.throw_at));
}
}  // namespace
VMC_HARNESS(fut_payload_v2, "C09,C02,C05") { payload_body<v2::async_scope>(); }
VMC_HARNESS(fut_payload_v1, "C09,C02,C05") { payload_body<v1::async_scope>(); }

// future spawned in an already closed scope: completes with done, sender destroyed, nothing leaked
VMC_SEQ_HARNESS(fut_closed, "C09,C02") {
  kit::AllocLedger led; led.props = "C09,C02";
  LeafState a; RcvState rf, rj; rf.props = "C09,C01";
  inplace_stop_source never;
  {
    v2::async_scope scope;
    auto jop = unifex::connect(scope.join(), JoinRcv{&rj});
    unifex::start(jop);
    auto fut = spawn_future(kit::Leaf{&a}, scope, kit::counting_allocator<std::byte>{&led});
    auto op = unifex::connect(std::move(fut), kit::Rcv<>{&rf, never.get_token()});
    unifex::start(op);
    vmc::check(rf.count == 1 && rf.how == 'D' && a.started == 0, "C09", "closed-scope", "future from a closed scope did not complete with done without starting the operation");
  }
  vmc::check(led.live == 0 && a.ops_alive == 0, "C09,C02", "shared-state", "closed-scope spawn leaked");
  vmc::note("ok");
}

// strong exception guarantee: the k-th allocation throws (k chosen); nothing leaks, the sender is not consumed
namespace {
struct ThrowOnConnect {
  LeafState* st; bool* thrown;
  template <template <class...> class V, template <class...> class T> using value_types = V<T<int>>;
  template <template <class...> class V> using error_types = V<std::exception_ptr>;
  static constexpr bool sends_done = true;
  template <class R> auto connect(R&& r) const& -> decltype(kit::Leaf{st}.connect((R&&)r)) { *thrown = true; throw kit::tagged_error{77}; }
};
}  // namespace
VMC_SEQ_HARNESS(fut_faults, "C09,C02") {
  int which = vmc::choose(3);   // 0: allocation throws, 1: connect throws, 2: no fault
  kit::AllocLedger led; led.props = "C09,C02";
  LeafState a; RcvState rj; bool thrown = false, caught = false;
  {
    v2::async_scope scope;
    try {
      if (which == 0) { led.throw_at = 1; auto f = spawn_future(kit::Leaf{&a}, scope, kit::counting_allocator<std::byte>{&led}); (void)f; }
      else if (which == 1) { auto f = spawn_future(ThrowOnConnect{&a, &thrown}, scope, kit::counting_allocator<std::byte>{&led}); (void)f; }
      else { auto f = spawn_future(kit::Leaf{&a}, scope, kit::counting_allocator<std::byte>{&led}); kit::complete(a, 'V', 1); }
    } catch (const std::bad_alloc&) { caught = true; } catch (const kit::tagged_error&) { caught = true; }
    vmc::check(caught == (which != 2), "C09", "fault-swallowed", "a failure during spawn_future did not propagate to the caller");
    auto jop = unifex::connect(scope.join(), JoinRcv{&rj});
    unifex::start(jop);
    vmc::check(rj.count == 1, "C09,C08", "join-lost", "scope cannot be joined after a failed spawn_future (reference leaked)");
  }
  vmc::check(led.live == 0, "C09,C02", "shared-state", "failed spawn_future leaked its allocation");
  vmc::check(a.ops_alive == 0, "C09,C02", "op-leak", "failed spawn_future leaked an operation state");
  vmc::note("fault" + std::to_string(which));
}

// spawn_detached: value / done complete silently; error terminates the process (and only error does)
VMC_SEQ_HARNESS(det_terminate, "C09") {
  int outcome = vmc::choose(3);
  kit::AllocLedger led; led.props = "C09,C02";
  LeafState a; RcvState rj;
  {
    v2::async_scope scope;
    spawn_detached(kit::VLeaf{&a}, scope, kit::counting_allocator<std::byte>{&led});
    vmc::check(a.started == 1, "C09", "not-started", "spawn_detached in an open scope did not start the operation");
    if (outcome == 1) vmcrt::expect_terminate(true);
    kit::complete(a, "VED"[outcome], 9);
    vmc::check(outcome != 1, "C09", "no-terminate", "spawn_detached operation completed with error but the process was not terminated");
    auto jop = unifex::connect(scope.join(), JoinRcv{&rj});
    unifex::start(jop);
    vmc::check(rj.count == 1, "C09,C08", "join-lost", "scope join did not complete after detached work finished");
  }
  vmc::check(led.live == 0 && led.allocs == 1, "C09,C02", "shared-state", "spawn_detached operation not freed exactly once");
  vmc::note(std::string("outcome") + "VED"[outcome]);
}

// ---- operation sequences on futures as values: spawn (open / closed scope), move-construct, move-assign in all four
// nested/not-nested combinations, destroy, await; then everything is destroyed and the scope joined.  Each spawned
// operation is a deferred leaf, so an unawaited future that is dropped must request stop on it; every shared state must
// be returned to the allocator exactly once and the scope must become joinable.  args: [depth]
namespace {
template <class Scope>
void future_ops_body(int depth) {
  kit::AllocLedger led; led.props = "C09,C02";
  LeafState leaves[6]; int nleaf = 0;
  RcvState rj; rj.props = "C09,C08";
  inplace_stop_source never;
  std::string trace;
  {
    Scope scope;
    using fut_t = decltype(spawn_future(kit::Leaf{&leaves[0]}, scope, kit::counting_allocator<std::byte>{&led}));
    std::optional<fut_t> f[2];
    bool closed = false;
    using join_op_t = decltype(unifex::connect(scope.join(), JoinRcv{&rj}));
    std::unique_ptr<join_op_t> jop;
    RcvState rf[6]; int nrf = 0;
    using await_op_t = decltype(unifex::connect(std::declval<fut_t>(), kit::Rcv<>{nullptr, inplace_stop_token{}}));
    std::vector<std::unique_ptr<await_op_t>> awaits;
    auto close = [&] { if (!closed) { closed = true; jop.reset(new join_op_t(unifex::connect(scope.join(), JoinRcv{&rj}))); unifex::start(*jop); } };
    for (int i = 0; i < depth; ++i) {
      int op = vmc::choose(9);
      trace += std::to_string(op);
      int w = op & 1;   // which variable
      switch (op) {
        case 0: case 1:   // (re)spawn into variable w
          if (nleaf >= 6) break;
          leaves[nleaf].props = "C09,C02";
          if (f[w]) *f[w] = spawn_future(kit::Leaf{&leaves[nleaf]}, scope, kit::counting_allocator<std::byte>{&led});
          else f[w].emplace(spawn_future(kit::Leaf{&leaves[nleaf]}, scope, kit::counting_allocator<std::byte>{&led}));
          ++nleaf;
          break;
        case 2: case 3:   // move-assign w <- other (both must exist)
          if (f[w] && f[1 - w]) *f[w] = std::move(*f[1 - w]);
          break;
        case 4: case 5:   // destroy w
          f[w].reset();
          break;
        case 6: case 7:   // await w: the future is consumed
          if (f[w] && nrf < 6) {
            rf[nrf].props = "C09,C01";
            std::unique_ptr<await_op_t> a(new await_op_t(unifex::connect(std::move(*f[w]), kit::Rcv<>{&rf[nrf], never.get_token()})));
            f[w].reset();
            unifex::start(*a);
            awaits.push_back(std::move(a));
            ++nrf;
          }
          break;
        default: close(); break;
      }
    }
    // complete whatever is still running (an operation whose future was dropped has been asked to stop: it ends with done)
    for (int i = 0; i < nleaf; ++i)
      if (leaves[i].pending()) kit::complete(leaves[i], leaves[i].stop_seen ? 'D' : 'V', i + 1);
    f[0].reset(); f[1].reset();
    for (int i = 0; i < nleaf; ++i)
      if (leaves[i].pending()) kit::complete(leaves[i], leaves[i].stop_seen ? 'D' : 'V', i + 1);
    for (int i = 0; i < nrf; ++i)
      vmc::check(rf[i].count == 1, "C09,C01", "future-lost", ("an awaited future did not complete exactly once after its operation completed; ops: " + trace).c_str());
    awaits.clear();
    close();
    vmc::check(rj.count == 1, "C09,C08", "join-lost", ("the scope cannot be joined although every future was destroyed or awaited (a reference leaked); ops: " + trace).c_str());
  }
  for (int i = 0; i < nleaf; ++i) vmc::check(leaves[i].ops_alive == 0, "C09,C02", "op-leak", ("a spawned operation state is still alive; ops: " + trace).c_str());
  vmc::check(led.live == 0, "C09,C02", "shared-state", ("future shared state leaked: " + std::to_string(led.live) + " block(s) still allocated; ops: " + trace).c_str());
  vmc::note("ok");
}
}  // namespace
VMC_SEQ_HARNESS(fut_ops, "C09,C02,C08") {
  int depth = vmcrt::arg(0, 4);
  future_ops_body<v2::async_scope>(depth);
}
