// C17 — bulk_schedule / bulk_transform / bulk_join / indexed_for / find_if
#include <vmc_main.hpp>
#include <probes.hpp>
#include <unifex/bulk_schedule.hpp>
#include <unifex/bulk_transform.hpp>
#include <unifex/bulk_join.hpp>
#include <unifex/indexed_for.hpp>
#include <unifex/find_if.hpp>
#include <unifex/just.hpp>
#include <unifex/then.hpp>
#include <unifex/inline_scheduler.hpp>
#include <unifex/execution_policy.hpp>
using namespace unifex;
using kit::RcvState;

namespace {
using It = int*;
struct FindRcv {
  RcvState* s; It* out; inplace_stop_token tok{};
  void set_value(It it) noexcept { *out = it; s->signal('V'); }
  void set_done() noexcept { s->signal('D'); }
  template <class E> void set_error(E&&) noexcept { s->signal('E'); }
  friend inplace_stop_token tag_invoke(tag_t<get_stop_token>, const FindRcv& r) noexcept { return r.tok; }
  friend inline_scheduler tag_invoke(tag_t<get_scheduler>, const FindRcv&) noexcept { return {}; }
};
// candidate match positions for a range of length n: every position for short ranges, boundary-biased otherwise
std::vector<int> positions(int n) {
  std::vector<int> p;
  if (n <= 200) { for (int i = 0; i < n; ++i) p.push_back(i); return p; }
  auto add = [&](int x) { if (x >= 0 && x < n) p.push_back(x); };
  add(0); add(1); add(n - 1); add(n - 2); add(n / 2);
  for (int c : {4, 16, 32}) { int step = (n + c) / c; for (int k = 1; k < 40; ++k) { add(k * step - 1); add(k * step); add(k * step + 1); } }
  std::sort(p.begin(), p.end()); p.erase(std::unique(p.begin(), p.end()), p.end());
  return p;
}
template <class Policy>
void findif_case(Policy pol, int n, int pos1, int pos2) {
  // exact-size heap buffer: a predicate call outside [begin,end) is a heap-buffer-overflow for ASan
  std::unique_ptr<int[]> buf(new int[n > 0 ? n : 1]);
  for (int i = 0; i < n; ++i) buf[i] = 0;
  if (pos1 >= 0) buf[pos1] = 1;
  if (pos2 >= 0) buf[pos2] = 1;
  It b = buf.get(), e = buf.get() + n;
  RcvState rs; rs.props = "C17,C01"; It got = nullptr; inplace_stop_source never;
  long calls = 0; bool out_of_range = false;
  {
    auto snd = then(find_if(just(b, e), [&](const int& v) noexcept {
                       ++calls;
                       if (&v < b || &v >= e) { out_of_range = true; return false; }
                       return v == 1; }, pol),
                    [](It it) noexcept { return it; });
    auto op = unifex::connect(std::move(snd), FindRcv{&rs, &got, never.get_token()});
    unifex::start(op);
  }
  It want = std::find_if(b, e, [](int v) { return v == 1; });
  std::string ctx = " (n=" + std::to_string(n) + " match=" + std::to_string(pos1) + "," + std::to_string(pos2) + ")";
  vmc::check(!out_of_range, "C17", "predicate-out-of-range", "find_if evaluated the predicate on an element outside the range" + ctx);
  vmc::check(rs.count == 1 && rs.how == 'V', "C17,C01", "not-once", "find_if did not complete exactly once with a value" + ctx);
  vmc::check(got == want, "C17", "wrong-result", "find_if returned index " + std::to_string(got - b) + ", std::find_if returns " + std::to_string(want - b) + ctx);
  vmc::check(calls <= (long)n + 64, "C17", "predicate-overrun", "find_if called the predicate more often than the range is long" + ctx);
}
}  // namespace

// arg0: 0 = seq, 1 = par.  n in [0, arg1) (default 1101) x match position sets
VMC_SEQ_HARNESS(bulk_findif, "C17,C01") {
  int par_policy = vmcrt::arg(0, 0), maxn = vmcrt::arg(1, 1101);
  int n = vmc::choose(maxn);
  auto ps = positions(n);
  int sel = vmc::choose((int)ps.size() + 2);   // 0 = no match, 1..k = single match, k+1 = two matches
  int p1 = -1, p2 = -1;
  if (sel >= 1 && sel <= (int)ps.size()) p1 = ps[sel - 1];
  if (sel == (int)ps.size() + 1 && n >= 2) { p1 = n / 3; p2 = (2 * n) / 3; }
  if (par_policy) findif_case(par, n, p1, p2); else findif_case(seq, n, p1, p2);
  vmc::note(n < 8 ? "tiny" : n < 160 ? "small" : "chunked");
}

namespace {
struct BulkRcv {
  RcvState* s; std::vector<int>* hits; int* after_terminal; int policy; inplace_stop_source* src; int stop_at; inplace_stop_token tok{};
  void set_next(int i) noexcept {
    if (s->count) ++*after_terminal;
    if (i >= 0 && i < (int)hits->size()) ++(*hits)[i]; else ++*after_terminal;
    if (i == stop_at) src->request_stop();
  }
  void set_value() noexcept { s->signal('V'); }
  void set_done() noexcept { s->signal('D'); }
  template <class E> void set_error(E&&) noexcept { s->signal('E'); }
  friend inplace_stop_token tag_invoke(tag_t<get_stop_token>, const BulkRcv& r) noexcept { return r.tok; }
  friend auto tag_invoke(tag_t<get_execution_policy>, const BulkRcv& r) noexcept { return par_unseq; }
};
template <class Policy>
struct BulkRcvP : BulkRcv {
  friend Policy tag_invoke(tag_t<get_execution_policy>, const BulkRcvP&) noexcept { return Policy{}; }
};
template <class Policy>
void bulk_case(int n, int stop_at, bool stoppable, int layer) {
  RcvState rs; rs.props = "C17,C01"; std::vector<int> hits(n, 0); int after = 0; inplace_stop_source src;
  BulkRcvP<Policy> r{{&rs, &hits, &after, 0, &src, stop_at, stoppable ? src.get_token() : inplace_stop_token{}}};
  if (layer == 0) { auto op = unifex::connect(bulk_schedule(inline_scheduler{}, n), std::move(r)); unifex::start(op); }
  else { auto op = unifex::connect(bulk_transform(bulk_schedule(inline_scheduler{}, n), [](int i) noexcept { return i; }, Policy{}), std::move(r)); unifex::start(op); }
  std::string ctx = " (n=" + std::to_string(n) + " stop_at=" + std::to_string(stop_at) + " stoppable=" + std::to_string(stoppable) + ")";
  vmc::check(rs.count == 1, "C17,C01", "not-once", "bulk_schedule did not complete exactly once" + ctx);
  vmc::check(after == 0, "C17", "next-after-terminal", "set_next after the terminal signal or with an index outside 0..n-1" + ctx);
  int first_missing = n;
  for (int i = 0; i < n; ++i) {
    vmc::check(hits[i] <= 1, "C17", "index-twice", "index " + std::to_string(i) + " was delivered more than once" + ctx);
    if (hits[i] == 0 && first_missing == n) first_missing = i;
    if (hits[i] == 1) vmc::check(first_missing == n, "C17", "not-a-prefix", "indices were skipped" + ctx);
  }
  if (rs.how == 'V') vmc::check(first_missing == n, "C17", "index-missed", "completed with value but index " + std::to_string(first_missing) + " was never delivered" + ctx);
  if (rs.how == 'D') vmc::check(stoppable && stop_at >= 0, "C17", "spurious-done", "completed with done although stop was never requested" + ctx);
  if (stoppable && stop_at >= 0 && stop_at < n - 64) vmc::check(rs.how == 'D' && first_missing < n, "C17,C04", "stop-ignored", "stop requested at index " + std::to_string(stop_at) + " but every index was still delivered" + ctx);
}
}  // namespace

// ---- execution policy seen by the bulk source under stacked bulk_transform layers -------------------------------------
// bulk_transform(bulk_transform(src, f1, P1), f2, P2) connected to a receiver with policy PR, for every
// combination of the four policies.  The probe source records the policy its receiver reports: it must never allow
// parallel (unsequenced) delivery unless every function policy below it and the final receiver allow it - otherwise a
// source that acts on the policy calls a function or the receiver concurrently although it only permits seq.
namespace {
inline int pol_code(sequenced_policy) { return 0; }
inline int pol_code(parallel_policy) { return 1; }
inline int pol_code(unsequenced_policy) { return 2; }
inline int pol_code(parallel_unsequenced_policy) { return 3; }
struct ProbeBulkSrc {
  int* seen; int n;
  template <template <class...> class V, template <class...> class T> using value_types = V<T<>>;
  template <template <class...> class V, template <class...> class T> using next_types = V<T<int>>;
  template <template <class...> class V> using error_types = V<std::exception_ptr>;
  static constexpr bool sends_done = true;
  template <class R>
  struct Op {
    int* seen; int n; R r;
    void start() noexcept {
      *seen = pol_code(get_execution_policy(r));
      for (int i = 0; i < n; ++i) unifex::set_next(r, int(i));
      unifex::set_value(std::move(r));
    }
  };
  template <class R> Op<std::decay_t<R>> connect(R&& r) const& { return Op<std::decay_t<R>>{seen, n, (R&&)r}; }
};
template <class F> void with_policy(int idx, F&& f) {
  switch (idx) { case 0: f(seq); break; case 1: f(par); break; case 2: f(unseq); break; default: f(par_unseq); break; }
}
struct JoinRcv {
  RcvState* s;
  void set_value() noexcept { s->signal('V'); }
  void set_done() noexcept { s->signal('D'); }
  template <class E> void set_error(E&&) noexcept { s->signal('E'); }
};
}  // namespace
VMC_SEQ_HARNESS(bulk_policy, "C17") {
  int layers = 1 + vmc::choose(2);            // one or two bulk_transform layers
  int p1 = vmc::choose(4), p2 = layers == 2 ? vmc::choose(4) : 3;
  const int top = 0;
  int pr = vmc::choose(4);
  int seen = -1, calls1 = 0, calls2 = 0; const int n = 5;
  RcvState rs; rs.props = "C17,C01"; std::vector<int> hits(n, 0); int after = 0; inplace_stop_source src;
  with_policy(p1, [&](auto P1) {
    with_policy(p2, [&](auto P2) {
      with_policy(pr, [&](auto PR) {
        auto f1 = [&calls1](int i) noexcept { ++calls1; return i; };
        auto f2 = [&calls2](int i) noexcept { ++calls2; return i; };
        using PRt = decltype(PR);
        auto run = [&](auto sender) {
          { BulkRcvP<PRt> r{{&rs, &hits, &after, 0, &src, -1, inplace_stop_token{}}}; auto op = unifex::connect(std::move(sender), std::move(r)); unifex::start(op); }
        };
        if (layers == 1) run(bulk_transform(ProbeBulkSrc{&seen, n}, f1, P1));
        else run(bulk_transform(bulk_transform(ProbeBulkSrc{&seen, n}, f1, P1), f2, P2));
      });
    });
  });
  int meet = p1 & p2 & pr;
  std::string ctx = " (layers=" + std::to_string(layers) + " f1=" + std::to_string(p1) + " f2=" + std::to_string(p2) + " receiver=" + std::to_string(pr) + ": source sees " + std::to_string(seen) + ", permitted " + std::to_string(meet) + "; 0 seq 1 par 2 unseq 3 par_unseq)";
  vmc::check(rs.count == 1 && rs.how == 'V', "C17,C01", "not-once", "bulk pipeline did not complete exactly once with value" + ctx);
  vmc::check(calls1 == n && (layers == 1 || calls2 == n), "C17", "index-missed", "a transform function was not called once per index" + ctx);
  if (top == 0) for (int i = 0; i < n; ++i) vmc::check(hits[i] == 1, "C17", "index-missed", "index not delivered exactly once" + ctx);
  vmc::check((seen & ~meet) == 0, "C17", "policy-widened", "the bulk source is told a policy that permits more than the functions and the receiver below it allow" + ctx);
  vmc::note("seen" + std::to_string(seen) + (seen == meet ? "=" : "<") + "meet");
}
// bulk_schedule(n) x 4 policies x stop requested at an index (from inside set_next) x stoppable / unstoppable receiver
VMC_SEQ_HARNESS(bulk_sched, "C17,C01,C04") {
  static const int ns[] = {0, 1, 2, 15, 16, 17, 31, 32, 33, 47, 48, 49, 100, 1000};
  int n = ns[vmc::choose(14)];
  int pol = vmc::choose(4);
  int layer = vmc::choose(2);
  bool stoppable = vmc::choose(2);
  int stop_at = -1;
  if (stoppable) { static const int at[] = {-1, 0, 1, 15, 16, 17, 31, 32, 40}; stop_at = at[vmc::choose(9)]; if (stop_at >= n) stop_at = -1; }
  switch (pol) {
    case 0: bulk_case<sequenced_policy>(n, stop_at, stoppable, layer); break;
    case 1: bulk_case<parallel_policy>(n, stop_at, stoppable, layer); break;
    case 2: bulk_case<unsequenced_policy>(n, stop_at, stoppable, layer); break;
    case 3: bulk_case<parallel_unsequenced_policy>(n, stop_at, stoppable, layer); break;
  }
  vmc::note("pol" + std::to_string(pol) + (stoppable ? "s" : "u") + (stop_at >= 0 ? "x" : ""));
}
