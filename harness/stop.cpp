// C03 — stop-token protocol harnesses (inplace_stop_source/callback, fused_stop_source, token adapter)
#include <vmc_main.hpp>
#include <probe_stop.hpp>
#include <unifex/inplace_stop_token.hpp>
#include <unifex/fused_stop_source.hpp>
using namespace unifex;

namespace {
// logical event clock: execution is serialised, so plain ints are exact
struct Clock { int t = 0; int tick() { return ++t; } };
struct CbMon {
  int ran = 0;
  int cs = 0, ce = 0, ds = 0, de = 0;  // ctor start/end, dtor start/end (0 = not yet)
  int ran_at = 0;
  bool running = false;
};
struct ReqMon { int rs = 0, re = 0; bool was_first = false; };

void check_cb(const CbMon& c, const char* who) {
  std::string w(who);
  vmc::check(c.ran <= 1, "C03", "cb-twice", w + ": callback ran more than once");
  vmc::check(!c.running, "C03", "cb-running-after-dtor", w + ": callback still running after its deregistration returned");
  if (c.ran && c.de) vmc::check(c.ran_at < c.de, "C03", "cb-after-dtor", w + ": callback ran after its deregistration returned");
}
// the stop request that was first: [rs,re]; callback must have run iff the request overlapped/covered registration
void check_iff(const CbMon& c, int first_rs, int first_re, const char* who) {
  std::string w(who);
  if (first_rs == 0) { vmc::check(c.ran == 0, "C03", "cb-without-request", w + ": callback ran although stop was never requested"); return; }
  // deregistered completely before the request began -> never
  if (c.de && c.de < first_rs) vmc::check(c.ran == 0, "C03", "cb-not-registered", w + ": callback ran although it was deregistered before the request");
  // registered (ctor returned) before the request began and deregistration started after the request returned -> exactly once
  if (c.ce < first_rs && (c.ds == 0 || c.ds > first_re)) vmc::check(c.ran == 1, "C03", "cb-missed", w + ": callback registered during the whole request did not run");
  // registration started after the request was visible (request returned) -> inline in the constructor
  if (c.cs > first_re) vmc::check(c.ran == 1 && c.ran_at < c.ce, "C03", "cb-not-inline", w + ": registration after stop did not run the callback inside the constructor");
  // in all cases: once both the constructor and the first request have returned (and dtor not begun before), it ran
  int both = std::max(c.ce, first_re);
  if (c.ds == 0 || c.ds > both) vmc::check(c.ran == 1, "C03", "cb-lost", w + ": callback neither run by the requester nor inline by its constructor");
}
}  // namespace

// H1: two requesters vs. one thread constructing and destroying a callback
VMC_HARNESS(stop_req2_cb, "C03") {
  Clock k; CbMon c; ReqMon r[2];
  inplace_stop_source src;
  auto req = [&](int i) { r[i].rs = k.tick(); r[i].was_first = !src.request_stop(); r[i].re = k.tick(); };
  std::thread t1(req, 0), t2(req, 1);
  bool seen_before = src.stop_requested();
  {
    auto fn = [&]() noexcept { c.running = true; ++c.ran; c.ran_at = k.tick(); c.running = false; };
    c.cs = k.tick();
    inplace_stop_callback<decltype(fn)> cb(src.get_token(), fn);
    c.ce = k.tick();
    bool mid = src.stop_requested();
    vmc::check(!seen_before || mid, "C03", "stop-reverted", "stop_requested() reverted to false");
    c.ds = k.tick();
  }
  c.de = k.tick();
  check_cb(c, "cb");
  t1.join(); t2.join();
  vmc::check(r[0].was_first != r[1].was_first, "C03", "first-requester", "not exactly one request_stop() observed that it was the first");
  vmc::check(src.stop_requested(), "C03", "stop-not-sticky", "stop_requested() false after request_stop()");
  int f = r[0].was_first ? 0 : 1;
  check_iff(c, r[f].rs, r[f].re, "cb");
  check_cb(c, "cb");
  vmc::note(std::string("ran=") + char('0' + c.ran) + (f ? " t2first" : " t1first"));
}

// H2/H4: two registrants (ctor/dtor on their own threads) vs. one requester; registration racing the request
VMC_HARNESS(stop_reg2_req, "C03") {
  Clock k; CbMon c[2]; ReqMon r;
  inplace_stop_source src;
  auto reg = [&](int i) {
    auto fn = [&, i]() noexcept { c[i].running = true; ++c[i].ran; c[i].ran_at = k.tick(); c[i].running = false; };
    c[i].cs = k.tick();
    {
      inplace_stop_callback<decltype(fn)> cb(src.get_token(), fn);
      c[i].ce = k.tick();
      c[i].ds = k.tick();
    }
    c[i].de = k.tick();
    check_cb(c[i], i ? "cb1" : "cb0");
  };
  std::thread t1(reg, 0), t2(reg, 1);
  r.rs = k.tick(); r.was_first = !src.request_stop(); r.re = k.tick();
  vmc::check(r.was_first, "C03", "first-requester", "sole request_stop() did not report being first");
  t1.join(); t2.join();
  for (int i = 0; i < 2; ++i) { check_iff(c[i], r.rs, r.re, i ? "cb1" : "cb0"); check_cb(c[i], i ? "cb1" : "cb0"); }
  vmc::note(std::string("ran=") + char('0' + c[0].ran) + char('0' + c[1].ran));
}

// H3: callbacks that destroy their own registration / a sibling registration from inside the callback,
// with a second requester racing. mode arg0: 0 = self, 1 = sibling (registered later => runs earlier),
// 2 = sibling (registered earlier)
VMC_HARNESS(stop_reentrant, "C03") {
  int mode = vmcrt::arg(0, 0);
  Clock k; CbMon a, b;
  inplace_stop_source src;
  struct Fn { std::function<void()> f; void operator()() noexcept { f(); } };
  std::optional<inplace_stop_callback<Fn>> cbA, cbB;
  auto bodyB = [&] { b.running = true; ++b.ran; b.ran_at = k.tick(); b.running = false; };
  // NOTE: in mode 0 the callback destroys its own registration, i.e. the functor that is executing;
  // it must not touch its captures afterwards, so everything it needs is copied to locals first.
  auto bodyA = [&a, &b, &k, &cbA, &cbB, mode] {
    CbMon* pa = &a; CbMon* pb = &b; Clock* pk = &k; auto* pA = &cbA; auto* pB = &cbB; int m = mode;
    pa->running = true; ++pa->ran; pa->ran_at = pk->tick();
    if (m == 0) { pa->running = false; pa->ds = pk->tick(); pA->reset(); pa->de = pk->tick(); return; }
    pb->ds = pk->tick(); pB->reset(); pb->de = pk->tick();
    vmc::check(!pb->running, "C03", "cb-running-after-dtor", "sibling still running after its deregistration returned");
    pa->running = false;
  };
  if (mode == 2) { b.cs = k.tick(); cbB.emplace(src.get_token(), Fn{bodyB}); b.ce = k.tick(); }
  a.cs = k.tick(); cbA.emplace(src.get_token(), Fn{bodyA}); a.ce = k.tick();
  if (mode == 1) { b.cs = k.tick(); cbB.emplace(src.get_token(), Fn{bodyB}); b.ce = k.tick(); }
  bool first[2] = {false, false};
  std::thread t1([&] { first[0] = !src.request_stop(); });
  first[1] = !src.request_stop();
  t1.join();
  vmc::check(first[0] != first[1], "C03", "first-requester", "not exactly one request_stop() observed that it was the first");
  vmc::check(a.ran == 1, "C03", "cb-missed", "callback A did not run exactly once");
  if (mode != 0) {
    vmc::check(b.ran <= 1, "C03", "cb-twice", "sibling ran twice");
    if (b.ran) vmc::check(b.ran_at < b.de, "C03", "cb-after-dtor", "sibling ran after A deregistered it");
  }
  if (mode == 0) { vmc::check(!cbA.has_value(), "C03", "self-dereg", "self-deregistration lost"); }
  else { a.ds = k.tick(); cbA.reset(); a.de = k.tick(); }
  vmc::note(std::string("a=") + char('0' + a.ran) + " b=" + char('0' + b.ran));
}

// H3c: destructor racing an execution on another thread: must block until the callback finished
VMC_HARNESS(stop_dtor_vs_exec, "C03") {
  Clock k; CbMon c;
  inplace_stop_source src;
  std::atomic<int> in_cb{0};
  struct Fn { std::function<void()> f; void operator()() noexcept { f(); } };
  auto* cb = new inplace_stop_callback<Fn>(src.get_token(), Fn{[&] {
    c.running = true; ++c.ran; in_cb.store(1); in_cb.store(2); c.ran_at = k.tick(); c.running = false; }});
  c.ce = 1;
  std::thread t([&] { src.request_stop(); });
  c.ds = k.tick();
  delete cb;   // frees the callback object: a requester still touching it is a use-after-free (ASan)
  c.de = k.tick();
  check_cb(c, "cb");
  t.join();
  check_cb(c, "cb");
  vmc::note(std::string("ran=") + char('0' + c.ran));
}

// H5: fused_stop_source over two upstream sources requested from two threads while register/deregister runs
VMC_HARNESS(stop_fused, "C03") {
  Clock k; CbMon c;
  inplace_stop_source s1, s2;
  fused_stop_source<inplace_stop_token, inplace_stop_token> fused;
  int r1s = 0, r1e = 0, r2s = 0, r2e = 0, regs = 0, rege = 0, ds = 0, de = 0;
  std::thread t1([&] { r1s = k.tick(); s1.request_stop(); r1e = k.tick(); });
  std::thread t2([&] { r2s = k.tick(); s2.request_stop(); r2e = k.tick(); });
  bool fused_at_dereg = false;
  {
    auto fn = [&]() noexcept { ++c.ran; c.ran_at = k.tick(); };
    c.cs = k.tick();
    inplace_stop_callback<decltype(fn)> cb(fused.get_token(), fn);
    c.ce = k.tick();
    regs = k.tick();
    fused.register_callbacks(s1.get_token(), s2.get_token());
    rege = k.tick();
    ds = k.tick();
    fused.deregister_callbacks();
    de = k.tick();
    fused_at_dereg = fused.stop_requested();
    int ran_at_dereg = c.ran;
    t1.join(); t2.join();
    vmc::check(c.ran == ran_at_dereg, "C03", "fused-after-dereg", "fused source forwarded a request after deregister_callbacks() returned");
    vmc::check(fused.stop_requested() == fused_at_dereg, "C03", "fused-after-dereg", "fused source changed state after deregister_callbacks() returned");
    c.ds = k.tick();
  }
  c.de = k.tick();
  vmc::check(c.ran <= 1, "C03", "cb-twice", "callback on fused source ran twice");
  vmc::check(c.ran == (fused_at_dereg ? 1 : 0), "C03", "fused-forward", "callback on the fused source ran iff the fused source was stopped");
  // an upstream request that began after registration returned and returned before deregistration began must be forwarded
  bool must = (r1s > rege && r1e < ds && r1e) || (r2s > rege && r2e < ds && r2e);
  // an upstream request that had returned before registration began is forwarded inside register_callbacks
  must = must || (r1e && r1e < regs) || (r2e && r2e < regs);
  if (must) vmc::check(fused_at_dereg, "C03", "fused-missed", "upstream request during registration lifetime not forwarded");
  bool never = (r1s > de) && (r2s > de);
  if (never) vmc::check(!fused_at_dereg, "C03", "fused-spurious", "fused source stopped although both upstream requests came after deregistration");
  vmc::note(std::string("fused=") + (fused_at_dereg ? "1" : "0") + " ran=" + char('0' + c.ran));
}

// H6: inplace_stop_token_adapter over a foreign token type: subscribe/unsubscribe racing a request
VMC_HARNESS(stop_adapter, "C03,C18,C12") {
  Clock k; CbMon c;
  kit::probe_stop_source ext;
  int rs = 0, re = 0, ss = 0, se = 0, us = 0, ue = 0;
  std::thread t([&] { rs = k.tick(); ext.request_stop(); re = k.tick(); });
  bool stopped_at_unsub = false;
  {
    inplace_stop_token_adapter<kit::probe_stop_token> ad;
    ss = k.tick();
    inplace_stop_token tok = ad.subscribe(ext.get_token());
    se = k.tick();
    vmc::check(tok.stop_possible(), "C03,C18,C12", "adapter-possible", "adapted token of a stoppable token reports stop impossible");
    {
      auto fn = [&]() noexcept { ++c.ran; c.ran_at = k.tick(); };
      inplace_stop_callback<decltype(fn)> cb(tok, fn);
      us = k.tick();
      // callback destroyed before unsubscribe, as the algorithms do
    }
    bool before = tok.stop_requested();
    ad.unsubscribe();
    ue = k.tick();
    stopped_at_unsub = tok.stop_requested();
    vmc::check(!before || stopped_at_unsub, "C03", "stop-reverted", "adapted token reverted");
    t.join();
    vmc::check(tok.stop_requested() == stopped_at_unsub, "C03,C18", "adapter-after-unsub", "adapter forwarded a request after unsubscribe() returned");
  }
  vmc::check(ext.live == 0, "C03,C18", "adapter-leak", "adapter left a registration on the foreign token");
  vmc::check(c.ran <= 1, "C03", "cb-twice", "callback ran twice");
  if (re && re < ss) vmc::check(c.ran == 1, "C03,C18", "adapter-missed", "request before subscribe not visible through the adapter");
  if (rs > se && re && re < us) vmc::check(c.ran == 1, "C03,C18", "adapter-missed", "request during subscription not forwarded to the registered callback");
  if (rs > ue) vmc::check(c.ran == 0 && !stopped_at_unsub, "C03,C18", "adapter-spurious", "request after unsubscribe was forwarded");
  vmc::note(std::string("ran=") + char('0' + c.ran) + (stopped_at_unsub ? " stopped" : " not"));
}
