// C16 — manual-reset events (v1, v2), auto-reset event, async_pass; also C11 (completion context)
#include <vmc_main.hpp>
#include <probes.hpp>
#include <unifex/v1/async_manual_reset_event.hpp>
#include <unifex/v2/async_manual_reset_event.hpp>
#include <unifex/async_auto_reset_event.hpp>
#include <unifex/async_pass.hpp>
#include <unifex/manual_event_loop.hpp>
using namespace unifex;
using kit::RcvState;

namespace {
struct Clock { int t = 0; int tick() { return ++t; } };

// two waiters ∥ set() ; then the sequential tail: reset -> later wait parks -> set wakes it
template <class Evt, bool Stoppable>
void manual_body() {
  Evt evt; Clock k;
  RcvState rs[3]; inplace_stop_source src0, never;
  for (auto& r : rs) r.props = "C16,C01";
  int ws[3] = {0, 0, 0}, we[3] = {0, 0, 0};   // wait start() began / returned
  int set_s = 0, set_e = 0;
  auto waiter = [&](int i) {
    auto op = unifex::connect(evt.async_wait(), kit::Rcv<>{&rs[i], (Stoppable && i == 0) ? src0.get_token() : never.get_token()});
    ws[i] = k.tick();
    unifex::start(op);
    we[i] = k.tick();
    // a wait whose start() returned after a completed set() must already be complete (inline scheduler)
    if (set_e && ws[i] > set_e) vmc::check(rs[i].count == 1, "C16", "wait-while-set", "async_wait started while the event was set did not complete without another set()");
    vmc::wait_until([&] { return rs[i].count > 0; });
  };
  std::thread t1(waiter, 0), t2(waiter, 1);
  std::thread st([&] { if (Stoppable) src0.request_stop(); });
  set_s = k.tick(); evt.set(); set_e = k.tick();
  vmc::check(evt.ready(), "C16", "not-ready", "ready() false after set()");
  t1.join(); t2.join(); st.join();
  for (int i = 0; i < 2; ++i) {
    vmc::check(rs[i].count == 1, "C16,C01", "stranded", "async_wait racing set() was stranded or resumed twice");
    if (!(Stoppable && i == 0)) vmc::check(rs[i].how == 'V', "C16", "bad-channel", "uncancelled async_wait did not complete with value");
  }
  // reset only affects later waits
  evt.reset();
  vmc::check(!evt.ready(), "C16", "reset", "ready() true after reset()");
  auto op3 = unifex::connect(evt.async_wait(), kit::Rcv<>{&rs[2], never.get_token()});
  unifex::start(op3);
  vmc::check(rs[2].count == 0, "C16", "reset", "async_wait completed although the event had been reset");
  std::thread setter([&] { evt.set(); });
  std::thread setter2([&] { evt.set(); });
  setter.join(); setter2.join();
  vmc::check(rs[2].count == 1 && rs[2].how == 'V', "C16,C01", "stranded", "async_wait started before set() was not resumed exactly once");
  vmc::note(rs[0].str() + rs[1].str());
}
}  // namespace

VMC_HARNESS(evt_v1, "C16,C01") { manual_body<v1::async_manual_reset_event, false>(); }
VMC_HARNESS(evt_v2, "C16,C01,C19") { manual_body<v2::async_manual_reset_event, true>(); }

// set/reset racing one waiter: the waiter is never stranded once a final set() has returned
template <class Evt>
static void setreset_body() {
  Evt evt; RcvState rs; rs.props = "C16,C01"; inplace_stop_source never;
  auto op = unifex::connect(evt.async_wait(), kit::Rcv<>{&rs, never.get_token()});
  std::thread a([&] { evt.set(); });
  std::thread b([&] { evt.reset(); });
  unifex::start(op);
  a.join(); b.join();
  bool ready = evt.ready();
  if (rs.count == 0) {
    vmc::check(!ready, "C16", "stranded", "event is set but a started async_wait was not resumed");
    evt.set();
  }
  vmc::check(rs.count == 1 && rs.how == 'V', "C16,C01", "stranded", "async_wait not resumed exactly once after the final set()");
  vmc::note(std::string(ready ? "set" : "reset"));
}
VMC_HARNESS(evt_v1_setreset, "C16,C01") { setreset_body<v1::async_manual_reset_event>(); }
VMC_HARNESS(evt_v2_setreset, "C16,C01") { setreset_body<v2::async_manual_reset_event>(); }

// completion context: waiter's receiver advertises a manual_event_loop scheduler; set() comes from a foreign
// thread; the completion must be delivered on the loop's thread. arg0: 0 = v1 event, 1 = v2 event
namespace {
template <class S>
struct CtxRcv {
  RcvState* s; inplace_stop_token tok; S sch;
  void set_value() noexcept { s->signal('V'); }
  void set_done() noexcept { s->signal('D'); }
  template <class E> void set_error(E&&) noexcept { s->signal('E'); }
  friend inplace_stop_token tag_invoke(tag_t<get_stop_token>, const CtxRcv& r) noexcept { return r.tok; }
  friend S tag_invoke(tag_t<get_scheduler>, const CtxRcv& r) noexcept { return r.sch; }
};
template <class Evt>
void ctx_body() {
  Evt evt; manual_event_loop loop; RcvState rs; rs.props = "C16,C11,C01"; inplace_stop_source never;
  int runner_id = -1;
  std::thread runner([&] { runner_id = vmc::self(); loop.run(); });
  auto op = unifex::connect(evt.async_wait(), CtxRcv<decltype(loop.get_scheduler())>{&rs, never.get_token(), loop.get_scheduler()});
  std::thread setter([&] { evt.set(); });
  unifex::start(op);
  vmc::wait_until([&] { return rs.count > 0; });
  setter.join();
  loop.stop(); runner.join();
  vmc::check(rs.count == 1 && rs.how == 'V', "C16,C01", "stranded", "async_wait not completed");
  vmc::check(rs.thread == runner_id, "C16,C11", "wrong-context", "async_wait completion not delivered on the waiter's scheduler");
  vmc::note("ok");
}
}  // namespace
VMC_HARNESS(evt_v1_ctx, "C16,C11") { ctx_body<v1::async_manual_reset_event>(); }
VMC_HARNESS(evt_v2_ctx, "C16,C11") { ctx_body<v2::async_manual_reset_event>(); }


// ---- operation sequences on one thread (v2 event: the latchable waiter list with removals in the middle) -------------
// Every sequence of up to arg0 operations over { W: start one more async_wait (at most 4), Ck: request stop on waiter k,
// S: set(), R: reset() }.  Reference: a bool + the set of parked waiters.  A wait started while set completes at once; a
// cancelled parked wait completes with done at the stop request; set() completes every parked wait with value; reset()
// changes nothing for completed waits.  At the end set() is called once more: nobody may remain parked.
template <class Evt, bool Stoppable>
static void event_ops_body() {
  int nops = vmcrt::arg(0, 5);
  Evt evt;
  constexpr int MAXW = 4;
  RcvState rs[MAXW]; inplace_stop_source src[MAXW];
  for (auto& r : rs) r.props = "C16,C01";
  using Op = decltype(unifex::connect(evt.async_wait(), kit::Rcv<>{&rs[0], src[0].get_token()}));
  struct Holder { Op op; Holder(Evt& e, kit::Rcv<> r) : op(unifex::connect(e.async_wait(), std::move(r))) {} };
  std::unique_ptr<Holder> ops[MAXW];
  bool is_set = false; std::vector<int> parked; int nw = 0; char expect[MAXW] = {'?', '?', '?', '?'};
  std::string trace;
  auto check_state = [&](const char* when) {
    if (evt.ready() != is_set) vmcrt::fail("C16", "ready", (std::string(when) + ": ready() disagrees with the reference; ops: " + trace).c_str());
    for (int i = 0; i < nw; ++i) {
      bool p = std::find(parked.begin(), parked.end(), i) != parked.end();
      if (p && rs[i].count != 0) vmcrt::fail("C16,C01", "early-completion", (std::string(when) + ": waiter " + std::to_string(i) + " completed although the event is not set; ops: " + trace).c_str());
      if (!p && rs[i].count != 1) vmcrt::fail("C16,C01", "stranded", (std::string(when) + ": waiter " + std::to_string(i) + " should have completed (event set / cancelled); ops: " + trace).c_str());
      if (!p && rs[i].how != expect[i]) vmcrt::fail("C16", "bad-channel", (std::string(when) + ": waiter " + std::to_string(i) + " completed with " + rs[i].how + ", reference says " + expect[i] + "; ops: " + trace).c_str());
    }
  };
  for (int step = 0; step <= nops; ++step) {
    std::vector<std::pair<char, int>> menu;
    if (step == nops) menu.push_back({'S', 0});   // final set(): everybody must be released
    else {
      if (nw < MAXW) menu.push_back({'W', nw});
      menu.push_back({'S', 0}); menu.push_back({'R', 0});
      if (Stoppable) for (int id : parked) menu.push_back({'C', id});
    }
    auto [op, id] = menu[menu.size() > 1 ? vmc::choose((int)menu.size()) : 0];
    trace += op; if (op == 'W' || op == 'C') trace += std::to_string(id); trace += ' ';
    if (op == 'W') {
      ops[id] = std::make_unique<Holder>(evt, kit::Rcv<>{&rs[id], src[id].get_token()});
      ++nw;
      if (is_set) expect[id] = 'V'; else parked.push_back(id);
      unifex::start(ops[id]->op);
    } else if (op == 'S') {
      is_set = true; for (int w : parked) expect[w] = 'V'; parked.clear();
      evt.set();
    } else if (op == 'R') {
      is_set = false;
      evt.reset();
    } else {
      parked.erase(std::find(parked.begin(), parked.end(), id)); expect[id] = 'D';
      src[id].request_stop();
    }
    check_state("after op");
  }
  for (int i = 0; i < nw; ++i) ops[i].reset();
  vmc::note(std::to_string(nw) + "w");
}
VMC_SEQ_HARNESS(evt_v2_ops, "C16,C01,C19") { event_ops_body<v2::async_manual_reset_event, true>(); }
VMC_SEQ_HARNESS(evt_v1_ops, "C16,C01") { event_ops_body<v1::async_manual_reset_event, false>(); }

// auto-reset event: producer set() x2 (+ optional set_done) ∥ consumer next(), next() on a loop scheduler
VMC_HARNESS(evt_auto, "C16,C13,C01") {
  int with_done = vmcrt::arg(0, 0);
  async_auto_reset_event evt; manual_event_loop loop;
  using S = decltype(loop.get_scheduler());
  RcvState r1, r2, r3; r1.props = r2.props = r3.props = "C16,C01";
  inplace_stop_source never;
  std::thread runner([&] { loop.run(); });
  int sets_done = 0;
  std::thread producer([&] { evt.set(); ++sets_done; evt.set(); ++sets_done; if (with_done) evt.set_done(); });
  auto stream = evt.stream();
  auto op1 = unifex::connect(stream.next(), CtxRcv<S>{&r1, never.get_token(), loop.get_scheduler()});
  unifex::start(op1);
  int sets_at_n1 = 0;
  vmc::wait_until([&] { return r1.count > 0; });
  sets_at_n1 = sets_done;
  auto op2 = unifex::connect(stream.next(), CtxRcv<S>{&r2, never.get_token(), loop.get_scheduler()});
  unifex::start(op2);
  producer.join();
  int values = (r1.how == 'V') + (r2.count && r2.how == 'V');
  // each set() is handed to at most one next(): two set() calls cannot produce more than two values
  vmc::check(values <= 2, "C16", "set-duplicated", "more next() completions than set() calls");
  bool done_called = false;
  if (!with_done) vmc::check(r1.how == 'V', "C16", "set-lost", "first next() did not receive the first set()");
  else vmc::check(r1.how == 'V' || r1.how == 'D', "C16", "bad-channel", "next() completed with error");
  if (r2.count == 0) {
    // second next() still parked: legal only if both set() calls were coalesced before the first next() consumed them
    if (!with_done) { evt.set(); vmc::wait_until([&] { return r2.count > 0; }); vmc::check(r2.how == 'V', "C16", "set-lost", "parked next() not woken by set()"); }
    else { vmc::wait_until([&] { return r2.count > 0; }); }
  }
  vmc::wait_until([&] { return r2.count > 0; });
  if (with_done) {
    // done is sticky: any later next() completes with done, set() no longer produces values
    evt.set();
    auto op3 = unifex::connect(stream.next(), CtxRcv<S>{&r3, never.get_token(), loop.get_scheduler()});
    unifex::start(op3);
    vmc::wait_until([&] { return r3.count > 0; });
    vmc::check(r3.how == 'D', "C16", "done-not-sticky", "next() after set_done() did not complete with done");
    if (r1.how == 'D') vmc::check(r2.how == 'D', "C16", "done-not-sticky", "a next() completed with value after an earlier next() had completed with done");
  }
  loop.stop(); runner.join();
  vmc::note(r1.str() + r2.str() + (with_done ? r3.str() : ""));
}

// async_pass<int>: caller on T1, acceptor on T0, stop of the caller (arg0=0) or of the acceptor (arg0=1) on T2
namespace {
struct AccRcv {
  RcvState* s; int* got; inplace_stop_token tok;
  void set_value(int v) noexcept { *got = v; s->value = v; s->signal('V'); }
  void set_done() noexcept { s->signal('D'); }
  template <class E> void set_error(E&&) noexcept { s->signal('E'); }
  friend inplace_stop_token tag_invoke(tag_t<get_stop_token>, const AccRcv& r) noexcept { return r.tok; }
  friend inline_scheduler tag_invoke(tag_t<get_scheduler>, const AccRcv&) noexcept { return {}; }
};
}  // namespace
VMC_HARNESS(pass_call_accept, "C16,C01") {
  int who = vmcrt::arg(0, 0);
  async_pass<int> pass;
  inplace_stop_source csrc, asrc;
  RcvState rc, ra; rc.props = ra.props = "C16,C01"; int got = -1;
  int payload = 42;   // async_call keeps a reference: must outlive the operation
  auto cop = unifex::connect(pass.async_call(payload), kit::Rcv<>{&rc, csrc.get_token()});
  auto aop = unifex::connect(pass.async_accept(), AccRcv{&ra, &got, asrc.get_token()});
  std::thread t1([&] { unifex::start(cop); });
  std::thread t2([&] { if (who == 0) csrc.request_stop(); else asrc.request_stop(); });
  unifex::start(aop);
  t1.join(); t2.join();
  if (who == 0) vmc::check(rc.count == 1, "C16,C01", "not-once", "async_call with a stop request not completed exactly once");
  else vmc::check(ra.count == 1, "C16,C01", "not-once", "async_accept with a stop request not completed exactly once");
  if (rc.count && rc.how == 'V') vmc::check(ra.count == 1 && ra.how == 'V' && got == 42, "C16", "call-without-accept", "call completed with value but no accept received the payload");
  if (ra.count && ra.how == 'V') vmc::check(rc.count == 1 && rc.how == 'V' && got == 42, "C16", "accept-without-call", "accept received the payload but the call did not complete with value");
  vmc::check(payload == 42, "C16", "payload-touched", "a cancelled call modified its arguments");
  // the side that was not cancelled and not matched must still be waiting: complete it with the try_* counterpart
  if (ra.count == 0) {
    int seven = 7;
    vmc::check(pass.try_call(std::move(seven)), "C16", "acceptor-lost", "acceptor neither completed nor waiting after the caller was cancelled");
    vmc::check(ra.count == 1 && got == 7, "C16", "acceptor-lost", "try_call did not reach the waiting acceptor");
  } else if (rc.count == 0) {
    auto r = pass.try_accept();
    vmc::check(r.has_value(), "C16", "caller-lost", "caller neither completed nor waiting after the acceptor was cancelled");
    vmc::check(rc.count == 1 && rc.how == 'V', "C16", "caller-lost", "try_accept did not complete the waiting caller");
  } else {
    int nine = 9;
    vmc::check(!pass.try_call(std::move(nine)), "C16", "try-spurious", "try_call succeeded although no acceptor is waiting");
  }
  vmc::note(rc.str() + "/" + ra.str());
}
