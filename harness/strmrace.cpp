// C13 — the cross-thread protocols of the stream adaptors: stop_immediately (source completion on one thread vs. the
// consumer's stop request on another; cleanup() must wait for the abandoned next()) and take_until (source next() vs.
// the trigger firing on another thread; cleanup of both).  The probe stream's next() is completed by a "producer"
// thread, so value delivery, cancellation and cleanup genuinely race under the scheduler.
#include <vmc_main.hpp>
#include <probes.hpp>
#include <unifex/stream_concepts.hpp>
#include <unifex/stop_immediately.hpp>
#include <unifex/take_until.hpp>
#include <unifex/single.hpp>
#include <functional>
#include <memory>
using namespace unifex;

namespace {
// shared state of one probe stream (plain data: execution is serialised by the scheduler)
struct PS {
  const char* name = "source";
  int next_started = 0, next_completed = 0, cleanup_started = 0, cleanup_completed = 0;
  bool saw_stop = false;
  // installed by a started next(): complete it (true = with a value).  A plain function pointer + object pointer (not a
  // std::function): the hand-over between threads is serialised by the scheduler and published to ThreadSanitizer below
  struct Fire {
    void (*fn)(void*, bool) = nullptr; void* obj = nullptr;
    explicit operator bool() const { return fn != nullptr; }
    void operator()(bool v) const { VMC_TSAN_ACQ(obj); fn(obj, v); }
    Fire& operator=(std::nullptr_t) { fn = nullptr; obj = nullptr; return *this; }
  } complete_next;
  int produced = 0;
  bool consumer_result = false;
};
struct PStream {
  PS* s;
  struct next_sender {
    PS* s;
    template <template <class...> class V, template <class...> class T> using value_types = V<T<int>>;
    template <template <class...> class V> using error_types = V<std::exception_ptr>;
    static constexpr bool sends_done = true;
    template <class R>
    struct op {
      PS* s; R r;
      struct Cb { PS* s; void operator()() noexcept { s->saw_stop = true; } };
      std::optional<typename stop_token_type_t<R>::template callback_type<Cb>> cb;
      bool started = false, done = false;
      ~op() { if (started && !done) vmcrt::fail("C13,C02", "next-destroyed-early", "a started next() operation was destroyed before it completed"); }
      void start() noexcept {
        started = true;
        if (s->cleanup_started) vmcrt::fail("C13", "next-after-cleanup", "next() started after cleanup() of the same stream");
        if (s->next_started > s->next_completed) vmcrt::fail("C13", "next-concurrent", "next() started while the previous next() is still outstanding");
        ++s->next_started;
        cb.emplace(get_stop_token(r), Cb{s});
        VMC_TSAN_REL(this);
        s->complete_next.obj = this;
        s->complete_next.fn = [](void* p, bool value) {
          auto* self = static_cast<op*>(p);
          PS* s = self->s;
          s->complete_next = nullptr;
          self->cb.reset();
          self->done = true;
          ++s->next_completed;
          if (value) { int v = ++s->produced; unifex::set_value(std::move(self->r), int(v)); } else unifex::set_done(std::move(self->r));
        };
      }
    };
    template <class R> op<std::decay_t<R>> connect(R&& r) const& { return op<std::decay_t<R>>{s, (R&&)r}; }
  };
  struct cleanup_sender {
    PS* s;
    template <template <class...> class V, template <class...> class T> using value_types = V<>;
    template <template <class...> class V> using error_types = V<std::exception_ptr>;
    static constexpr bool sends_done = true;
    template <class R>
    struct op {
      PS* s; R r;
      void start() noexcept {
        if (s->cleanup_started) vmcrt::fail("C13", "cleanup-twice", "cleanup() of the underlying stream was started more than once");
        if (s->next_started > s->next_completed) vmcrt::fail("C13", "cleanup-during-next", "cleanup() was started while a next() of the same stream is still outstanding");
        if (s->consumer_result) vmcrt::fail("C13", "cleanup-after-result", "cleanup() of an underlying stream started after the consumer's cleanup completed");
        ++s->cleanup_started; ++s->cleanup_completed;
        unifex::set_done(std::move(r));
      }
    };
    template <class R> op<std::decay_t<R>> connect(R&& r) const& { return op<std::decay_t<R>>{s, (R&&)r}; }
  };
  friend next_sender tag_invoke(tag_t<next>, PStream& p) noexcept { return next_sender{p.s}; }
  friend cleanup_sender tag_invoke(tag_t<cleanup>, PStream& p) noexcept { return cleanup_sender{p.s}; }
};

struct Out { int count = 0; char how = '?'; int v = 0; };
struct ORcv {
  Out* o; inplace_stop_token tok; kit::FreeCtl* ctl;
  void sig(char h, int v) noexcept {
    vmc::publish();
    ++o->count; o->how = h; o->v = v;
    if (o->count > 1) vmcrt::fail("C13,C01", "completed-twice", "a stream operation completed more than once");
    if (ctl) ctl->free_now();
  }
  void set_value(int v) noexcept { sig('V', v); }
  void set_value() noexcept { sig('V', 0); }
  void set_done() noexcept { sig('D', 0); }
  template <class E> void set_error(E&&) noexcept { sig('E', 0); }
  friend inplace_stop_token tag_invoke(tag_t<get_stop_token>, const ORcv& r) noexcept { return r.tok; }
};
}  // namespace

// stop_immediately(source): producer completes the source's next() || stopper requests stop; then cleanup.
// args: [second round: 0 no, 1 a second next() after the first]
VMC_HARNESS(strm_race_stopimm, "C13,C02,C01") {
  bool second = vmcrt::arg(0, 0) != 0;
  PS src;
  Out o1, o2, oc; kit::FreeCtl c1, c2, cc;
  inplace_stop_source ss;
  {
    auto strm = stop_immediately<int>(PStream{&src});
    auto* n1 = kit::make_heap_op(next(strm), ORcv{&o1, ss.get_token(), &c1}, c1);
    // the producer completes every source next() that gets started, until the stream's cleanup has completed
    // (a next() started with stop already requested completes with done without touching the source)
    std::thread producer([&] {
      for (;;) {
        vmc::wait_until([&] { return (bool)src.complete_next || oc.count > 0; });
        if (!src.complete_next) break;
        auto f = src.complete_next; f(true);
      }
    });
    std::thread stopper([&] { ss.request_stop(); });
    unifex::start(n1->op);
    vmc::wait_until([&] { return o1.count > 0; });
    vmc::check(o1.how == 'D' || (o1.how == 'V' && o1.v == 1), "C13", "stream-element", "stop_immediately delivered something that is neither the source's element nor done");
    if (second && o1.how == 'V') {
      auto* n2 = kit::make_heap_op(next(strm), ORcv{&o2, ss.get_token(), &c2}, c2);
      unifex::start(n2->op);
      vmc::wait_until([&] { return o2.count > 0; });
      vmc::check(o2.how == 'D' || (o2.how == 'V' && o2.v == 2), "C13", "stream-element", "second element is not the source's second element");
    }
    stopper.join();
    auto* cl = kit::make_heap_op(cleanup(strm), ORcv{&oc, inplace_stop_token{}, &cc}, cc);
    unifex::start(cl->op);
    producer.join();
    vmc::wait_until([&] { return oc.count > 0; });
    src.consumer_result = true;
    vmc::check(oc.how == 'D', "C13", "cleanup-result", "cleanup() of stop_immediately did not complete with done");
    // (a source whose next() was never started needs no cleanup: stop_immediately skips it by design)
    vmc::check(src.cleanup_started == (src.next_started ? 1 : 0) && src.cleanup_completed == src.cleanup_started, "C13", "cleanup-count", "the source's cleanup() did not run exactly once after its next() had been started");
    vmc::check(src.next_started == src.next_completed, "C13", "next-abandoned", "cleanup completed while a source next() is still outstanding");
    // an element the source produced is either delivered or, after a stop, dropped - never duplicated
    int delivered = (o1.how == 'V') + (o2.how == 'V');
    vmc::check(delivered <= src.produced, "C13", "stream-element", "more elements delivered than the source produced");
  }
  vmc::note(std::string(1, o1.how) + (second ? std::string(1, o2.how) : ""));
}

// take_until(source, trigger): the source's next() is completed by one thread while the trigger fires on another.
// args: [who: 0 both, 1 only trigger, 2 only source]
VMC_HARNESS(strm_race_takeuntil, "C13,C02,C01") {
  int who = vmcrt::arg(0, 0);
  PS src, trg; trg.name = "trigger";
  Out o1, o2, oc; kit::FreeCtl c1, c2, cc;
  inplace_stop_source never;
  {
    auto strm = take_until(PStream{&src}, PStream{&trg});
    auto* n1 = kit::make_heap_op(next(strm), ORcv{&o1, never.get_token(), &c1}, c1);
    std::thread producer([&] {
      if (who == 1) return;
      vmc::wait_until([&] { return (bool)src.complete_next || o1.count > 0; });
      if (src.complete_next) { auto f = src.complete_next; f(!src.saw_stop); }   // a source that saw the stop request ends with done
    });
    std::thread firer([&] {
      if (who == 2) return;
      vmc::wait_until([&] { return (bool)trg.complete_next || oc.count > 0; });
      if (trg.complete_next) { auto f = trg.complete_next; f(true); }
    });
    unifex::start(n1->op);
    // a source next() that was cancelled by the trigger completes when its stop callback ran and the producer (or we)
    // complete it: the probe completes only when told to, so finish it with done once it has seen the stop request
    std::thread canceller([&] {
      vmc::wait_until([&] { return o1.count > 0 || (src.saw_stop && (bool)src.complete_next); });
      if (o1.count == 0 && src.complete_next && who == 1) { auto f = src.complete_next; f(false); }
    });
    vmc::wait_until([&] { return o1.count > 0; });
    vmc::check(o1.how == 'D' || (o1.how == 'V' && o1.v == 1), "C13", "stream-element", "take_until delivered something that is neither the source's element nor done");
    if (who == 2) vmc::check(o1.how == 'V', "C13", "stream-element", "take_until without a trigger did not deliver the source's element");
    producer.join(); canceller.join();
    auto* cl = kit::make_heap_op(cleanup(strm), ORcv{&oc, inplace_stop_token{}, &cc}, cc);
    unifex::start(cl->op);
    // the trigger's next() may still be outstanding: cleanup requests its stop; complete it with done then
    std::thread tcancel([&] {
      vmc::wait_until([&] { return oc.count > 0 || (trg.saw_stop && (bool)trg.complete_next); });
      if (oc.count == 0 && trg.complete_next) { auto f = trg.complete_next; f(false); }
    });
    firer.join(); tcancel.join();
    vmc::wait_until([&] { return oc.count > 0; });
    src.consumer_result = trg.consumer_result = true;
    vmc::check(oc.how == 'D', "C13", "cleanup-result", "cleanup() of take_until did not complete with done");
    vmc::check(src.cleanup_completed == 1, "C13", "cleanup-count", "the source's cleanup() did not run exactly once");
    vmc::check(trg.cleanup_completed == (trg.next_started ? 1 : trg.cleanup_completed), "C13", "cleanup-count", "the trigger's cleanup() did not run exactly once");
    vmc::check(trg.cleanup_completed <= 1 && src.cleanup_started == 1, "C13", "cleanup-count", "a cleanup() ran more than once");
    vmc::check(src.next_started == src.next_completed && trg.next_started == trg.next_completed, "C13", "next-abandoned", "cleanup completed while a next() is still outstanding");
  }
  vmc::note(std::string(1, o1.how));
}
