// engine self-test: litmus programs whose reachable outcomes / schedule counts are known.
#include <vmc_main.hpp>

// store buffering under SC: r0==0 && r1==0 impossible; three other outcomes reachable
VMC_HARNESS(litmus_sb, "ENGINE") {
  std::atomic<int> x{0}, y{0};
  int r0 = -1, r1 = -1;
  std::thread t([&] { y.store(1); r1 = x.load(); });
  x.store(1);
  r0 = y.load();
  t.join();
  vmc::check(!(r0 == 0 && r1 == 0), "ENGINE", "sb-00", "SB produced 0/0 under SC scheduling");
  vmc::note("r0=" + std::to_string(r0) + " r1=" + std::to_string(r1));
}

// message passing: flag seen => data seen
VMC_HARNESS(litmus_mp, "ENGINE") {
  std::atomic<int> flag{0};
  int data = 0, seen = -1;
  std::thread t([&] { if (flag.load(std::memory_order_acquire)) seen = data; });
  data = 42;
  flag.store(1, std::memory_order_release);
  t.join();
  vmc::check(seen == -1 || seen == 42, "ENGINE", "mp", "stale data");
  vmc::note(seen == -1 ? "notseen" : "seen");
}

// non-atomic increment implemented as load;store: lost update must be FOUND (expected failure)
VMC_HARNESS(litmus_lost_update, "ENGINE") {
  std::atomic<int> c{0};
  auto inc = [&] { int v = c.load(); c.store(v + 1); };
  std::thread t(inc);
  inc();
  t.join();
  vmc::note("c=" + std::to_string(c.load()));
  vmc::check(c.load() == 2, "ENGINE", "lost-update", "lost update");
}

// textbook lost wake-up: if(!flag) wait without holding the lock across the check -> deadlock must be FOUND
VMC_HARNESS(litmus_lost_wakeup, "ENGINE") {
  std::mutex m; std::condition_variable cv; std::atomic<bool> flag{false};
  std::thread t([&] {
    if (!flag.load()) { std::unique_lock<std::mutex> lk(m); cv.wait(lk); }
  });
  flag.store(true);
  { std::lock_guard<std::mutex> lk(m); }
  cv.notify_one();
  t.join();
}

// correct monitor: must pass
VMC_HARNESS(litmus_monitor, "ENGINE") {
  std::mutex m; std::condition_variable cv; bool flag = false; int got = 0;
  std::thread t1([&] { std::unique_lock<std::mutex> lk(m); while (!flag) cv.wait(lk); ++got; });
  std::thread t2([&] { std::unique_lock<std::mutex> lk(m); while (!flag) cv.wait(lk); ++got; });
  { std::lock_guard<std::mutex> lk(m); flag = true; }
  cv.notify_all();
  t1.join(); t2.join();
  vmc::check(got == 2, "ENGINE", "monitor", "waiter lost");
  vmc::note("ok");
}

// lock-order inversion: deadlock must be FOUND
VMC_HARNESS(litmus_lock_inversion, "ENGINE") {
  std::mutex a, b;
  std::thread t([&] { std::lock_guard<std::mutex> l1(b); std::lock_guard<std::mutex> l2(a); });
  { std::lock_guard<std::mutex> l1(a); std::lock_guard<std::mutex> l2(b); }
  t.join();
}

// two straight-line threads of m=arg0 and n=arg1 visible steps on distinct variables (no cache):
// number of schedules at unbounded preemptions is C(m+n, m)
VMC_HARNESS(litmus_count, "ENGINE") {
  int m = vmcrt::arg(0, 2), n = vmcrt::arg(1, 2);
  std::atomic<int> x{0}, y{0};
  std::atomic<bool> go{false};
  std::thread t([&] { vmc::wait_until([&] { return go.v_.load(); }); for (int i = 0; i < n; ++i) y.store(i); });
  go.v_.store(true);
  for (int i = 0; i < m; ++i) x.store(i);
  t.join();
  vmc::note("done");
}

// spin loop must be recognised as waiting (terminates, no horizon)
VMC_HARNESS(litmus_spin, "ENGINE") {
  std::atomic<bool> flag{false};
  std::thread t([&] { while (!flag.load(std::memory_order_acquire)) {} });
  flag.store(true, std::memory_order_release);
  t.join();
  vmc::note("ok");
}

// timed wait on the virtual clock: times out at exactly the deadline when nobody notifies
VMC_HARNESS(litmus_timed, "ENGINE") {
  std::mutex m; std::condition_variable cv; bool flag = false;
  auto t0 = std::chrono::steady_clock::now();
  std::thread t([&] { std::lock_guard<std::mutex> lk(m); flag = true; cv.notify_one(); });
  bool timeout = false;
  {
    std::unique_lock<std::mutex> lk(m);
    while (!flag) if (cv.wait_until(lk, t0 + std::chrono::milliseconds(5)) == std::cv_status::timeout) { timeout = true; break; }
  }
  t.join();
  auto dt = std::chrono::steady_clock::now() - t0;
  vmc::check(!timeout || dt >= std::chrono::milliseconds(5), "ENGINE", "timed", "timeout before the deadline");
  vmc::note(timeout ? "timeout" : "notified");
}

// data choices only (sequential): 3*2 = 6 executions
VMC_SEQ_HARNESS(litmus_choose, "ENGINE") {
  int a = vmc::choose(3), b = vmc::choose(2);
  vmc::note(std::to_string(a) + std::to_string(b));
}

// a crash must be contained and attributed (expected failure: heap-use-after-free)
VMC_HARNESS(litmus_uaf, "ENGINE") {
  std::atomic<int>* p = new std::atomic<int>(0);
  std::thread t([&] { p->store(1); });
  delete p;
  t.join();
}

// ---- store-buffer mode (--tso) ----------------------------------------------------------------------------------------
// SB with release stores and acquire loads: 0/0 is allowed by the C++ memory model and by x86-TSO; with --tso it must be
// reachable (needs one buffered store and one preemption), without --tso it must not be
VMC_HARNESS(litmus_sb_rel, "ENGINE") {
  std::atomic<int> x{0}, y{0};
  int r0 = -1, r1 = -1;
  std::thread t([&] { y.store(1, std::memory_order_release); r1 = x.load(std::memory_order_acquire); });
  x.store(1, std::memory_order_release);
  r0 = y.load(std::memory_order_acquire);
  t.join();
  vmc::note("r0=" + std::to_string(r0) + " r1=" + std::to_string(r1));
}
// the same with a seq_cst fence between store and load on both sides (Dekker): 0/0 impossible even with --tso
VMC_HARNESS(litmus_sb_fence, "ENGINE") {
  std::atomic<int> x{0}, y{0};
  int r0 = -1, r1 = -1;
  std::thread t([&] { y.store(1, std::memory_order_release); std::atomic_thread_fence(std::memory_order_seq_cst); r1 = x.load(std::memory_order_acquire); });
  x.store(1, std::memory_order_release);
  std::atomic_thread_fence(std::memory_order_seq_cst);
  r0 = y.load(std::memory_order_acquire);
  t.join();
  vmc::check(!(r0 == 0 && r1 == 0), "ENGINE", "sb-00", "SB with seq_cst fences produced 0/0");
  vmc::note("r0=" + std::to_string(r0) + " r1=" + std::to_string(r1));
}
// the unlock/lock shape of v2::async_mutex without its fence: unlocker stores locked=false then looks at the queue; locker
// publishes itself then exchanges locked. With the store buffered the exchange still sees `true`: nobody serves the waiter.
VMC_HARNESS(litmus_dekker_rmw, "ENGINE") {
  std::atomic<bool> locked{true}; std::atomic<int> queued{0};
  bool fence = vmcrt::arg(0, 0) != 0;
  bool served_by_unlocker = false, served_by_locker = false;
  std::thread t([&] {
    queued.fetch_add(1, std::memory_order_acq_rel);
    if (!locked.exchange(true, std::memory_order_acq_rel)) served_by_locker = true;
  });
  locked.store(false, std::memory_order_release);
  if (fence) std::atomic_thread_fence(std::memory_order_seq_cst);
  if (queued.load(std::memory_order_acquire) != 0) served_by_unlocker = true;
  t.join();
  vmc::note(std::string(served_by_unlocker ? "U" : "-") + (served_by_locker ? "L" : "-"));
  vmc::check(served_by_unlocker || served_by_locker, "ENGINE", "lost-waiter", "neither side saw the other");
}
// message passing stays intact under TSO (stores drain in order): flag seen => data seen, with or without --tso
VMC_HARNESS(litmus_mp_tso, "ENGINE") {
  std::atomic<int> flag{0}, data{0};
  int seen = -1;
  std::thread t([&] { if (flag.load(std::memory_order_acquire)) seen = data.load(std::memory_order_relaxed); });
  data.store(42, std::memory_order_relaxed);
  flag.store(1, std::memory_order_release);
  t.join();
  vmc::check(seen == -1 || seen == 42, "ENGINE", "mp", "stale data under store buffering");
  vmc::note(seen == -1 ? "notseen" : "seen");
}
// a spinning reader must eventually see a buffered store (buffers drain): no livelock / deadlock
VMC_HARNESS(litmus_tso_spin, "ENGINE") {
  std::atomic<int> flag{0}, ack{0};
  std::thread t([&] { while (!flag.load(std::memory_order_acquire)) {} ack.store(1, std::memory_order_release); });
  flag.store(1, std::memory_order_release);
  while (!ack.load(std::memory_order_acquire)) {}
  t.join();
  vmc::note("ok");
}

// ---- spurious wake-ups (--spurious) -------------------------------------------------------------------------------------
// `if (!flag) wait` instead of `while`: correct only if waits never return spuriously; with --spurious the waiter proceeds
// although the flag is still false (arg0 = 1: the correct `while` form, must pass)
VMC_HARNESS(litmus_spurious, "ENGINE") {
  std::mutex m; std::condition_variable cv; bool flag = false; bool proceeded_unset = false;
  bool loop = vmcrt::arg(0, 0) != 0;
  std::thread t([&] {
    std::unique_lock<std::mutex> lk(m);
    if (loop) { while (!flag) cv.wait(lk); } else { if (!flag) cv.wait(lk); }
    if (!flag) proceeded_unset = true;
  });
  { std::lock_guard<std::mutex> lk(m); flag = true; }
  cv.notify_one();
  t.join();
  vmc::check(!proceeded_unset, "ENGINE", "woke-unset", "waiter proceeded although the flag was not set");
  vmc::note("ok");
}
