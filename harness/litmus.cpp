// engine self-test: litmus programs whose reachable outcomes / schedule counts are known.
#include <vmc_main.hpp>

// store buffering under SC: r0==0 && r1==0 impossible; three other outcomes reachable
VMC_HARNESS(litmus_sb, "ENGINE") {
  std::atomic<int> x{0}, y{0};
  int r0 = -1, r1 = -1;
  std::thread t([&] { y.store(1); r1 = x.load(); });
  x.store(1);
  r0 = y.load();
  t.join();
  vmc::check(!(r0 == 0 && r1 == 0), "ENGINE", "sb-00", "SB produced 0/0 under SC scheduling");
  vmc::note("r0=" + std::to_string(r0) + " r1=" + std::to_string(r1));
}

// message passing: flag seen => data seen
VMC_HARNESS(litmus_mp, "ENGINE") {
  std::atomic<int> flag{0};
  int data = 0, seen = -1;
  std::thread t([&] { if (flag.load(std::memory_order_acquire)) seen = data; });
  data = 42;
  flag.store(1, std::memory_order_release);
  t.join();
  vmc::check(seen == -1 || seen == 42, "ENGINE", "mp", "stale data");
  vmc::note(seen == -1 ? "notseen" : "seen");
}

// non-atomic increment implemented as load;store: lost update must be FOUND (expected failure)
VMC_HARNESS(litmus_lost_update, "ENGINE") {
  std::atomic<int> c{0};
  auto inc = [&] { int v = c.load(); c.store(v + 1); };
  std::thread t(inc);
  inc();
  t.join();
  vmc::note("c=" + std::to_string(c.load()));
  vmc::check(c.load() == 2, "ENGINE", "lost-update", "lost update");
}

// textbook lost wake-up: if(!flag) wait without holding the lock across the check -> deadlock must be FOUND
VMC_HARNESS(litmus_lost_wakeup, "ENGINE") {
  std::mutex m; std::condition_variable cv; std::atomic<bool> flag{false};
  std::thread t([&] {
    if (!flag.load()) { std::unique_lock<std::mutex> lk(m); cv.wait(lk); }
  });
  flag.store(true);
  { std::lock_guard<std::mutex> lk(m); }
  cv.notify_one();
  t.join();
}

// correct monitor: must pass
VMC_HARNESS(litmus_monitor, "ENGINE") {
  std::mutex m; std::condition_variable cv; bool flag = false; int got = 0;
  std::thread t1([&] { std::unique_lock<std::mutex> lk(m); while (!flag) cv.wait(lk); ++got; });
  std::thread t2([&] { std::unique_lock<std::mutex> lk(m); while (!flag) cv.wait(lk); ++got; });
  { std::lock_guard<std::mutex> lk(m); flag = true; }
  cv.notify_all();
  t1.join(); t2.join();
  vmc::check(got == 2, "ENGINE", "monitor", "waiter lost");
  vmc::note("ok");
}

// lock-order inversion: deadlock must be FOUND
VMC_HARNESS(litmus_lock_inversion, "ENGINE") {
  std::mutex a, b;
  std::thread t([&] { std::lock_guard<std::mutex> l1(b); std::lock_guard<std::mutex> l2(a); });
  { std::lock_guard<std::mutex> l1(a); std::lock_guard<std::mutex> l2(b); }
  t.join();
}

// two straight-line threads of m=arg0 and n=arg1 visible steps on distinct variables (no cache):
// number of schedules at unbounded preemptions is C(m+n, m)
VMC_HARNESS(litmus_count, "ENGINE") {
  int m = vmcrt::arg(0, 2), n = vmcrt::arg(1, 2);
  std::atomic<int> x{0}, y{0};
  std::atomic<bool> go{false};
  std::thread t([&] { vmc::wait_until([&] { return go.v_.load(); }); for (int i = 0; i < n; ++i) y.store(i); });
  go.v_.store(true);
  for (int i = 0; i < m; ++i) x.store(i);
  t.join();
  vmc::note("done");
}

// spin loop must be recognised as waiting (terminates, no horizon)
VMC_HARNESS(litmus_spin, "ENGINE") {
  std::atomic<bool> flag{false};
  std::thread t([&] { while (!flag.load(std::memory_order_acquire)) {} });
  flag.store(true, std::memory_order_release);
  t.join();
  vmc::note("ok");
}

// timed wait on the virtual clock: times out at exactly the deadline when nobody notifies
VMC_HARNESS(litmus_timed, "ENGINE") {
  std::mutex m; std::condition_variable cv; bool flag = false;
  auto t0 = std::chrono::steady_clock::now();
  std::thread t([&] { std::lock_guard<std::mutex> lk(m); flag = true; cv.notify_one(); });
  bool timeout = false;
  {
    std::unique_lock<std::mutex> lk(m);
    while (!flag) if (cv.wait_until(lk, t0 + std::chrono::milliseconds(5)) == std::cv_status::timeout) { timeout = true; break; }
  }
  t.join();
  auto dt = std::chrono::steady_clock::now() - t0;
  vmc::check(!timeout || dt >= std::chrono::milliseconds(5), "ENGINE", "timed", "timeout before the deadline");
  vmc::note(timeout ? "timeout" : "notified");
}

// data choices only (sequential): 3*2 = 6 executions
VMC_SEQ_HARNESS(litmus_choose, "ENGINE") {
  int a = vmc::choose(3), b = vmc::choose(2);
  vmc::note(std::to_string(a) + std::to_string(b));
}

// a crash must be contained and attributed (expected failure: heap-use-after-free)
VMC_HARNESS(litmus_uaf, "ENGINE") {
  std::atomic<int>* p = new std::atomic<int>(0);
  std::thread t([&] { p->store(1); });
  delete p;
  t.join();
}
