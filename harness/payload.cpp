// C05 / C02 — values and errors arrive unmodified: a source whose value / error object lives inside its own
// operation state (like just(), just_error(), when_all ...) is put under every adaptor; the payload is a tracked
// object that knows whether it is alive, so a copy/move from an already destroyed payload, a lost payload, a
// double destruction or a leak is reported. Sequential; outcome and adaptor are enumerated.
#include <vmc_main.hpp>
#include <probes.hpp>
#include <unifex/then.hpp>
#include <unifex/upon_error.hpp>
#include <unifex/upon_done.hpp>
#include <unifex/let_value.hpp>
#include <unifex/let_error.hpp>
#include <unifex/let_done.hpp>
#include <unifex/finally.hpp>
#include <unifex/sequence.hpp>
#include <unifex/when_all.hpp>
#include <unifex/when_any.hpp>
#include <unifex/stop_when.hpp>
#include <unifex/materialize.hpp>
#include <unifex/dematerialize.hpp>
#include <unifex/via.hpp>
#include <unifex/typed_via.hpp>
#include <unifex/on.hpp>
#include <unifex/unstoppable.hpp>
#include <unifex/let_value_with_stop_source.hpp>
#include <unifex/retry_when.hpp>
#include <unifex/allocate.hpp>
#include <unifex/any_sender_of.hpp>
#include <unifex/detach_on_cancel.hpp>
#include <unifex/just.hpp>
#include <unifex/inline_scheduler.hpp>
#include <unifex/v2/async_scope.hpp>
#include <unifex/spawn_future.hpp>
#include <unifex/with_query_value.hpp>
using namespace unifex;

namespace {
struct PLedger { int ctor = 0, dtor = 0; int dead_reads = 0; };
PLedger* PL;
struct Payload {
  int tag; bool alive = true;
  explicit Payload(int t) : tag(t) { ++PL->ctor; }
  Payload(const Payload& o) : tag(o.tag) { if (!o.alive) { ++PL->dead_reads; tag = -999; } ++PL->ctor; }
  Payload(Payload&& o) noexcept : tag(o.tag) { if (!o.alive) { ++PL->dead_reads; tag = -999; } ++PL->ctor; }
  Payload& operator=(const Payload& o) { if (!o.alive) { ++PL->dead_reads; } tag = o.tag; return *this; }
  ~Payload() { alive = false; tag = -999; ++PL->dtor; }
};
// completes inline with a value / error / done; the value or error object is a member of the operation state
struct StoredLeaf {
  char outcome; int tag;
  template <template <class...> class V, template <class...> class T> using value_types = V<T<Payload>>;
  template <template <class...> class V> using error_types = V<Payload>;
  static constexpr bool sends_done = true;
  template <class R>
  struct Op {
    R r; char outcome; Payload stored;
    Op(R&& rr, char o, int tag) : r((R&&)rr), outcome(o), stored(tag) {}
    void start() noexcept {
      if (outcome == 'V') unifex::set_value(std::move(r), std::move(stored));
      else if (outcome == 'E') unifex::set_error(std::move(r), std::move(stored));
      else unifex::set_done(std::move(r));
    }
  };
  template <class R> Op<std::decay_t<R>> connect(R&& r) const& { return Op<std::decay_t<R>>{(R&&)r, outcome, tag}; }
};
struct PRcv {
  char* how; int* tag; int* count;
  void set_value(Payload p) noexcept { ++*count; *how = 'V'; *tag = p.tag; }
  void set_value(Payload p, Payload) noexcept { ++*count; *how = 'V'; *tag = p.tag; }
  template <class... A> void set_value(A&&...) noexcept { ++*count; *how = 'V'; *tag = -5; }
  void set_error(Payload p) noexcept { ++*count; *how = 'E'; *tag = p.tag; }
  void set_error(std::exception_ptr e) noexcept { ++*count; *how = 'X'; *tag = -6; try { std::rethrow_exception(e); } catch (const Payload& p) { *tag = p.tag; *how = 'E'; } catch (...) {} }
  void set_done() noexcept { ++*count; *how = 'D'; }
  friend unstoppable_token tag_invoke(tag_t<get_stop_token>, const PRcv&) noexcept { return {}; }
  friend inline_scheduler tag_invoke(tag_t<get_scheduler>, const PRcv&) noexcept { return {}; }
};
int g_idx, g_sel;
template <class Mk>
void one(const char* name, char outcome, Mk mk, bool value_passes = true) {
  if (g_idx++ != g_sel) return;
  PLedger led; PL = &led;
  char how = '?'; int tag = 0, count = 0;
  {
    auto snd = mk(StoredLeaf{outcome, 41});
    auto op = unifex::connect(std::move(snd), PRcv{&how, &tag, &count});
    unifex::start(op);
  }
  std::string n = std::string(name) + "/" + outcome;
  vmc::check(count == 1, "C05,C01", "not-once", n + ": not completed exactly once");
  vmc::check(led.dead_reads == 0, "C05,C02", "payload-read-after-destroy", n + ": a value/error was copied from an object that had already been destroyed");
  if (outcome == 'V' && value_passes) vmc::check(how == 'V' && tag == 41, "C05", "value-modified", n + ": the value did not arrive unmodified (got tag " + std::to_string(tag) + ")");
  if (outcome == 'E') vmc::check(how == 'E' && tag == 41, "C05", "error-modified", n + ": the error did not arrive unmodified (got " + std::string(1, how) + std::to_string(tag) + ")");
  if (outcome == 'D' && std::string(name) != "upon_done") vmc::check(how == 'D', "C05", "done-modified", n + ": done did not arrive as done");
  vmc::check(led.ctor == led.dtor, "C02,C05", "payload-ledger", n + ": payload objects constructed " + std::to_string(led.ctor) + " times, destroyed " + std::to_string(led.dtor) + " times");
  vmc::note(n);
}
void all(char o) {
  auto idv = [](Payload p) noexcept { return p; };
  one("plain", o, [](auto s) { return s; });
  one("then", o, [&](auto s) { return then(s, idv); });
  one("upon_done", o, [](auto s) { return upon_done(s, []() noexcept { return Payload(41); }); }, false);
  one("mat_demat", o, [](auto s) { return dematerialize(materialize(s)); });
  one("unstoppable", o, [](auto s) { return unstoppable(s); });
  one("via", o, [](auto s) { return via(s, inline_scheduler{}); });
  one("typed_via", o, [](auto s) { return typed_via(s, inline_scheduler{}); });
  one("on", o, [](auto s) { return on(inline_scheduler{}, s); });
  one("finally", o, [](auto s) { return finally(s, just()); });
  one("finally2", o, [](auto s) { return finally(finally(s, just()), just()); });
  one("let_value", o, [](auto s) { return let_value(s, [](Payload& p) { return just(Payload(p)); }); });
  one("let_error", o, [](auto s) { return let_error(s, [](auto&& e) { return just_error(Payload(e)); }); });
  one("let_done", o, [](auto s) { return let_done(s, [] { return just_done(); }); });
  one("sequence", o, [](auto s) { return sequence(just(), s); });
  one("when_all", o, [](auto s) { return then(when_all(s, just()), [](auto&& a, auto&&) noexcept { return Payload(std::get<0>(std::get<0>(a))); }); });
  // (when_any does not compile for senders whose error type is not exception_ptr - on the pinned tree either)
  one("stop_when", o, [](auto s) { return stop_when(s, just()); });
  one("lvss", o, [](auto s) { return let_value_with_stop_source([s](inplace_stop_source&) { return s; }); });
  one("allocate", o, [](auto s) { return allocate(s); });
  one("with_query_value", o, [](auto s) { return with_query_value(s, get_scheduler, inline_scheduler{}); });
  one("detach_on_cancel", o, [](auto s) { return detach_on_cancel(s); });
  one("via(finally)", o, [](auto s) { return via(finally(s, just()), inline_scheduler{}); });
  one("then(via)", o, [&](auto s) { return then(via(s, inline_scheduler{}), idv); });
}
}  // namespace

VMC_SEQ_HARNESS(payload_adaptors, "C05,C02,C01") {
  static int total = -1;
  if (total < 0) { g_sel = -1; g_idx = 0; all('V'); total = g_idx; }
  char o = "VED"[vmc::choose(3)];
  g_sel = vmc::choose(total); g_idx = 0;
  all(o);
}
