// C20 — async_trace reports the chain of receivers from the leaf to the root, and the async-stack bookkeeping is
// balanced.  async_trace_sender is put under every pair of adaptors that forward visit_continuations (and, in C++20,
// inside task<> coroutines one and two levels deep); the trace it delivers is checked structurally:
//   * with UNIFEX_ENABLE_CONTINUATION_VISITATIONS=1 the breadth-first entries form a tree (parentIndex < index,
//     depth = depth(parent)+1), entry 0 is the leaf's own receiver and the root receiver's type appears at a depth
//     of at least the number of adaptor layers;
//   * with visitation off the trace is exactly the single leaf entry;
//   * with async stacks compiled in, the thread's current AsyncStackRoot is null again once the operation has
//     completed, and while the leaf runs there is an active root whose top frame chain is non-empty.
// Sequential; the pair of adaptors is the enumerated choice.
#ifndef TRACE_PART
#define TRACE_PART 0
#endif
#if TRACE_PART == 0
#include <vmc_main.hpp>
#else
#include <vmc_rt.hpp>
#endif
#include <unifex/async_trace.hpp>
#include <unifex/then.hpp>
#include <unifex/upon_error.hpp>
#include <unifex/upon_done.hpp>
#include <unifex/let_value.hpp>
#include <unifex/let_error.hpp>
#include <unifex/let_done.hpp>
#include <unifex/finally.hpp>
#include <unifex/sequence.hpp>
#include <unifex/when_all.hpp>
#include <unifex/materialize.hpp>
#include <unifex/dematerialize.hpp>
#include <unifex/into_variant.hpp>
#include <unifex/with_query_value.hpp>
#include <unifex/repeat_effect_until.hpp>
#include <unifex/let_value_with_stop_token.hpp>
#include <unifex/just.hpp>
#include <unifex/just_done.hpp>
#include <unifex/just_from.hpp>
#include <unifex/get_allocator.hpp>
#include <unifex/inline_scheduler.hpp>
#include <unifex/tracing/async_stack.hpp>
#if !UNIFEX_NO_COROUTINES
#include <unifex/task.hpp>
#endif
#include <memory>
#include <string>
#include <vector>
using namespace unifex;

namespace {
struct Seen {
  bool completed = false; int count = 0; char how = '?';
  std::vector<async_trace_entry> trace;
  bool root_active_in_leaf = false;
};
Seen* G;

// the leaf: an async_trace_sender whose result is recorded, then forwarded as a void value so that every adaptor
// can sit on top of it
struct RootRcv {
  Seen* s;
  template <class... A> void set_value(A&&...) noexcept { ++s->count; s->how = 'V'; s->completed = true; }
  template <class E> void set_error(E&&) noexcept { ++s->count; s->how = 'E'; s->completed = true; }
  void set_done() noexcept { ++s->count; s->how = 'D'; s->completed = true; }
  friend unstoppable_token tag_invoke(tag_t<get_stop_token>, const RootRcv&) noexcept { return {}; }
  friend inline_scheduler tag_invoke(tag_t<get_scheduler>, const RootRcv&) noexcept { return {}; }
};

auto leaf() {
  return then(async_trace_sender{}, [](std::vector<async_trace_entry> t) noexcept {
    G->trace = std::move(t);
#if !UNIFEX_NO_ASYNC_STACKS
    G->root_active_in_leaf = unifex::tryGetCurrentAsyncStackRoot() != nullptr;
#endif
  });
}

// ---- the adaptor alphabet: W<k>(s) wraps a void-valued sender in one adaptor that must forward visit_continuations
constexpr int NW = 14;
template <int K, class S>
auto wrap(S s) {
  if constexpr (K == 0) return then((S&&)s, []() noexcept {});
  else if constexpr (K == 1) return let_value(just(), [s = (S&&)s]() mutable noexcept { return std::move(s); });
  else if constexpr (K == 2) return upon_error((S&&)s, [](auto&&) noexcept {});
  else if constexpr (K == 3) return upon_done((S&&)s, []() noexcept {});
  else if constexpr (K == 4) return let_error((S&&)s, [](auto&&) noexcept { return just(); });
  else if constexpr (K == 5) return let_done((S&&)s, []() noexcept { return just(); });
  else if constexpr (K == 6) return finally((S&&)s, just());
  else if constexpr (K == 7) return finally(just(), (S&&)s);
  else if constexpr (K == 8) return sequence(just(), (S&&)s);
  else if constexpr (K == 9) return then(when_all((S&&)s, just()), [](auto&&...) noexcept {});
  else if constexpr (K == 10) return dematerialize(materialize((S&&)s));
  else if constexpr (K == 11) return with_query_value((S&&)s, get_allocator, std::allocator<char>{});
  else if constexpr (K == 12) return let_value_with_stop_token([s = (S&&)s](auto) mutable noexcept { return std::move(s); });
  else return let_done(just_done(), [s = (S&&)s]() mutable noexcept { return std::move(s); });
}

void check_trace(const std::string& name, int layers) {
  const auto& t = G->trace;
  if (G->count != 1 || G->how != 'V') { vmcrt::fail("C20", "trace-completion", (name + ": expected one value completion, got count=" + std::to_string(G->count) + " how=" + G->how).c_str()); return; }
  if (t.empty()) { vmcrt::fail("C20", "trace-empty", (name + ": async_trace delivered no entries").c_str()); return; }
  if (t[0].depth != 0 || t[0].parentIndex != 0) vmcrt::fail("C20", "trace-root-entry", (name + ": entry 0 is not depth 0").c_str());
  for (size_t i = 1; i < t.size(); ++i) {
    if (t[i].parentIndex >= i || t[i].depth != t[t[i].parentIndex].depth + 1) {
      vmcrt::fail("C20", "trace-not-a-tree", (name + ": entry " + std::to_string(i) + " parent/depth inconsistent").c_str());
      return;
    }
  }
#if UNIFEX_ENABLE_CONTINUATION_VISITATIONS
  // the root receiver must be reachable from the leaf, below every adaptor layer
  size_t best = 0; bool found = false;
  for (size_t i = 0; i < t.size(); ++i)
    if (t[i].continuation.type() == type_id<RootRcv>()) { found = true; best = std::max(best, t[i].depth); }
  if (!found) vmcrt::fail("C20", "trace-chain-broken", (name + ": the root receiver does not appear in the async trace (" + std::to_string(t.size()) + " entries)").c_str());
  else if ((int)best < layers) vmcrt::fail("C20", "trace-chain-short", (name + ": root receiver at depth " + std::to_string(best) + " < " + std::to_string(layers) + " adaptor layers").c_str());
  for (size_t i = 0; i < t.size(); ++i)
    if (t[i].continuation.address() == nullptr) vmcrt::fail("C20", "trace-null-address", (name + ": entry with null address").c_str());
#else
  if (t.size() != 1) vmcrt::fail("C20", "trace-visitation-off", (name + ": visitation disabled but trace has " + std::to_string(t.size()) + " entries").c_str());
#endif
#if !UNIFEX_NO_ASYNC_STACKS
  if (unifex::tryGetCurrentAsyncStackRoot() != nullptr) vmcrt::fail("C20", "async-stack-root", (name + ": AsyncStackRoot still installed after completion").c_str());
#endif
}

template <class S>
void run_one(const std::string& name, S s, int layers) {
  Seen seen; G = &seen;
  {
    auto op = unifex::connect((S&&)s, RootRcv{&seen});
    unifex::start(op);
    if (!seen.completed) { vmcrt::fail("C20", "trace-not-inline", (name + ": did not complete inline").c_str()); return; }
  }
  check_trace(name, layers);
  vmc::note(name + ":ok");
}

template <int I, int J>
void pair_case() { run_one("w" + std::to_string(I) + "(w" + std::to_string(J) + ")", wrap<I>(wrap<J>(leaf())), 3); }
template <int I>
void single_case() { run_one("w" + std::to_string(I), wrap<I>(leaf()), 2); }

// the 14x14 pair matrix is compiled in four translation units (rows i with i % 4 == TRACE_PART) to keep the
// wall-clock build time of each configuration short
template <int I, int... J>
void pair_row(int j, std::integer_sequence<int, J...>) {
  if constexpr (I % 4 == TRACE_PART) ((j == J ? pair_case<I, J>() : void()), ...);
}
template <int... I>
void pair_dispatch(int i, int j, std::integer_sequence<int, I...> seq) { ((i == I ? pair_row<I>(j, seq) : void()), ...); }
template <int... I>
void single_dispatch(int i, std::integer_sequence<int, I...>) { ((i == I ? single_case<I>() : void()), ...); }

#if !UNIFEX_NO_COROUTINES
task<void> inner_task() { G->trace = co_await async_trace_sender{};
#if !UNIFEX_NO_ASYNC_STACKS
  G->root_active_in_leaf = unifex::tryGetCurrentAsyncStackRoot() != nullptr;
#endif
  co_return; }
task<void> outer_task() { co_await inner_task(); }
// plain awaitables (not senders) with the three await_suspend flavours; `suspend` says whether the awaiter really suspends
coro::coroutine_handle<> g_parked;
struct BoolAwaiter { bool suspend; bool await_ready() const noexcept { return false; } bool await_suspend(coro::coroutine_handle<> h) noexcept { if (suspend) g_parked = h; return suspend; } int await_resume() noexcept { return 7; } };
struct VoidAwaiter { bool await_ready() const noexcept { return false; } void await_suspend(coro::coroutine_handle<> h) noexcept { g_parked = h; } int await_resume() noexcept { return 8; } };
struct HandleAwaiter { bool suspend; bool await_ready() const noexcept { return false; } coro::coroutine_handle<> await_suspend(coro::coroutine_handle<> h) noexcept { if (suspend) { g_parked = h; return coro::noop_coroutine(); } return h; } int await_resume() noexcept { return 9; } };
struct ReadyAwaiter { bool await_ready() const noexcept { return true; } void await_suspend(coro::coroutine_handle<>) noexcept {} int await_resume() noexcept { return 6; } };
int g_awaited = 0;
void frame_check(const char* where) {
#if !UNIFEX_NO_ASYNC_STACKS
  // a running coroutine with async-stack support has an active frame on this thread's current root
  auto* root = unifex::tryGetCurrentAsyncStackRoot();
  if (!root || !root->getTopFrame()) vmcrt::fail("C20", "async-stack-frame-inactive", (std::string("no active AsyncStackFrame while the coroutine runs ") + where).c_str());
#else
  (void)where;
#endif
}
template <class A>
task<void> awaiter_task(A a, int expect) {
  frame_check("before the await");
  int v = co_await std::move(a);
  frame_check("after the await");
  if (v != expect) vmcrt::fail("C20", "awaiter-result", "await_resume value lost");
  ++g_awaited;
  G->trace = co_await async_trace_sender{};   // a second suspension point: bookkeeping must still be consistent
  frame_check("after the second await");
  co_return;
}
task<void> outer_sender_task() { co_await then(inner_task(), []() noexcept {}); }
#endif
}  // namespace

#define TRACE_CAT2(a, b) a##b
#define TRACE_CAT(a, b) TRACE_CAT2(a, b)
void TRACE_CAT(trace_pairs_part, TRACE_PART)(int i, int j) { pair_dispatch(i, j, std::make_integer_sequence<int, NW>{}); }
#if TRACE_PART == 0
void trace_pairs_part1(int, int);
void trace_pairs_part2(int, int);
void trace_pairs_part3(int, int);

VMC_SEQ_HARNESS(trace_chain, "C20") {
  int mode = vmc::choose(3);
  if (mode == 0) {
    single_dispatch(vmc::choose(NW), std::make_integer_sequence<int, NW>{});
  } else if (mode == 1) {
    int i = vmc::choose(NW), j = vmc::choose(NW);
    switch (i % 4) {
      case 0: trace_pairs_part0(i, j); break;
      case 1: trace_pairs_part1(i, j); break;
      case 2: trace_pairs_part2(i, j); break;
      default: trace_pairs_part3(i, j); break;
    }
  } else {
#if !UNIFEX_NO_COROUTINES
    int k = vmc::choose(12);
    if (k >= 5) {
      // plain awaitables inside a task<>: k-5 = {bool:false, bool:true, void, handle:self, handle:noop, ready, nested}
      g_parked = {}; g_awaited = 0;
      Seen seen; G = &seen;
      auto body = [&](auto t, const char* name) {
        auto op = unifex::connect(std::move(t), RootRcv{&seen});
        unifex::start(op);
        if (g_parked) { auto h = g_parked; g_parked = {}; if (seen.completed) vmcrt::fail("C20", "awaiter-result", "completed while parked"); h.resume(); }
        if (!seen.completed || seen.how != 'V' || g_awaited != 1) vmcrt::fail("C20", "awaiter-result", (std::string(name) + ": task awaiting a plain awaitable did not complete with value exactly once").c_str());
#if !UNIFEX_NO_ASYNC_STACKS
        if (unifex::tryGetCurrentAsyncStackRoot() != nullptr) vmcrt::fail("C20", "async-stack-root", (std::string(name) + ": AsyncStackRoot still installed after completion").c_str());
#endif
        vmc::note(std::string(name) + ":ok");
      };
      switch (k) {
        case 5: body(awaiter_task(BoolAwaiter{false}, 7), "await(bool:false)"); break;
        case 6: body(awaiter_task(BoolAwaiter{true}, 7), "await(bool:true)"); break;
        case 7: body(awaiter_task(VoidAwaiter{}, 8), "await(void)"); break;
        case 8: body(awaiter_task(HandleAwaiter{false}, 9), "await(handle:self)"); break;
        case 9: body(awaiter_task(HandleAwaiter{true}, 9), "await(handle:noop)"); break;
        case 10: body(awaiter_task(ReadyAwaiter{}, 6), "await(ready)"); break;
        default: body(then(awaiter_task(BoolAwaiter{false}, 7), []() noexcept {}), "then(await(bool:false))"); break;
      }
      return;
    }
    // a task must be started on its scheduler's context; inline_scheduler from RootRcv makes this thread the context
    // coroutine promises are transparent in the trace (they are not receivers): only receivers count as layers
    if (k == 0) run_one("task", inner_task(), 1);
    else if (k == 1) run_one("task(task)", outer_task(), 1);
    else if (k == 2) run_one("task(then(task))", outer_sender_task(), 2);
    else if (k == 3) run_one("w0(task)", wrap<0>(inner_task()), 2);
    else run_one("w6(task(task))", wrap<6>(outer_task()), 2);
#else
    vmc::note("no-coroutines");
#endif
  }
}
#endif  // TRACE_PART == 0
