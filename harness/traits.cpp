// C11 — static sender traits are sound / completions happen on the promised context.
// A typed corpus (no erasure): every adaptor over statically typed probe leaves that declare their own traits
// (always_inline / never, affine or not); every leaf outcome and completion order is enumerated and each run is
// checked against what sender_traits / blocking() promised for the whole expression.
#include <vmc_main.hpp>
#include <expr.hpp>
#include <unifex/then.hpp>
#include <unifex/upon_error.hpp>
#include <unifex/upon_done.hpp>
#include <unifex/let_value.hpp>
#include <unifex/let_error.hpp>
#include <unifex/let_done.hpp>
#include <unifex/let_value_with.hpp>
#include <unifex/let_value_with_stop_source.hpp>
#include <unifex/finally.hpp>
#include <unifex/sequence.hpp>
#include <unifex/when_all.hpp>
#include <unifex/when_any.hpp>
#include <unifex/stop_when.hpp>
#include <unifex/materialize.hpp>
#include <unifex/dematerialize.hpp>
#include <unifex/done_as_optional.hpp>
#include <unifex/via.hpp>
#include <unifex/typed_via.hpp>
#include <unifex/on.hpp>
#include <unifex/with_scheduler_affinity.hpp>
#include <unifex/unstoppable.hpp>
#include <unifex/detach_on_cancel.hpp>
#include <unifex/just.hpp>
#include <unifex/just_done.hpp>
#include <unifex/just_error.hpp>
#include <unifex/just_from.hpp>
#include <unifex/defer.hpp>
#include <unifex/retry_when.hpp>
#include <unifex/allocate.hpp>
#include <unifex/inline_scheduler.hpp>
#include <unifex/v2/async_manual_reset_event.hpp>
#include <unifex/v2/async_mutex.hpp>
#include <unifex/v1/async_manual_reset_event.hpp>
#include <unifex/stop_if_requested.hpp>
using namespace unifex;
using ex::Mode;

namespace ex {
Ctx* g = nullptr;
kit::AllocLedger* ledger_for_tag(int tag) { return g ? &g->ledgers[tag] : nullptr; }
}  // namespace ex

namespace {
// typed probe leaves: Inline completes inside start() (declares always_inline), Deferred parks (declares never)
template <bool Void> struct vt_sel { template <template <class...> class V, template <class...> class T> using apply = V<T<int>>; };
template <> struct vt_sel<true> { template <template <class...> class V, template <class...> class T> using apply = V<T<>>; };
template <bool Inline> struct bk_sel { static constexpr auto value = blocking_kind::never; };
template <> struct bk_sel<true> { static constexpr auto value = blocking_kind::always_inline; };
template <bool Inline, bool Void = false>
struct TLeaf {
  int id;
  template <template <class...> class V, template <class...> class T> using value_types = typename vt_sel<Void>::template apply<V, T>;
  template <template <class...> class V> using error_types = V<std::exception_ptr>;
  static constexpr bool sends_done = true;
  static constexpr auto blocking = bk_sel<Inline>::value;
  static constexpr bool is_always_scheduler_affine = Inline;   // an inline completion stays on the starting context
  template <class R>
  struct Op {
    int id; R r;
    void fire() noexcept {
      auto& L = ex::g->leaf(id);
      ++L.completions;
      char ch = L.starts > 1 ? 'V' : L.outcome;   // a restarted leaf (retry_when) succeeds the second time
      if (ch == 'V') { if constexpr (Void) unifex::set_value(std::move(r)); else unifex::set_value(std::move(r), id + 1); }
      else if (ch == 'D') unifex::set_done(std::move(r));
      else unifex::set_error(std::move(r), std::make_exception_ptr(kit::tagged_error{id + 1}));
    }
    void start() noexcept {
      auto& L = ex::g->leaf(id);
      if (!L.configured) { L.outcome = "VED"[vmcrt::choose(3)]; L.configured = true; }
      ++L.starts;
      if (Inline) { fire(); return; }
      ex::g->pending.push_back(ex::Pending{id, -1, [this] { fire(); }, true});
    }
  };
  template <class R> Op<std::decay_t<R>> connect(R&& r) const& { return Op<std::decay_t<R>>{id, (R&&)r}; }
};
using IL = TLeaf<true>; using DL = TLeaf<false>; using IV = TLeaf<true, true>; using DV = TLeaf<false, true>;

struct TopRcv {
  kit::RcvState* s; inplace_stop_token tok; int* ctx;
  template <class... A> void set_value(A&&...) noexcept { *ctx = ex::g->cur_ctx; s->signal('V'); }
  template <class E> void set_error(E&&) noexcept { *ctx = ex::g->cur_ctx; s->signal('E'); }
  void set_done() noexcept { *ctx = ex::g->cur_ctx; s->signal('D'); }
  friend inplace_stop_token tag_invoke(tag_t<get_stop_token>, const TopRcv& r) noexcept { return r.tok; }
  friend ex::tag_sched tag_invoke(tag_t<get_scheduler>, const TopRcv&) noexcept { return ex::tag_sched{7}; }
};

// sender_traits<S>::blocking does not compile with g++ 12 for some let_* senders over a never-blocking predecessor
// (a compile-time matter, not a run-time property): fall back to the run-time blocking(sender) alone there
template <class S, class = void> struct static_blocking { static constexpr bool available = false; static constexpr blocking_kind value = blocking_kind::maybe; };
template <class S> struct static_blocking<S, std::void_t<decltype(unifex::detail::_blocking<S>::value)>> { static constexpr bool available = true; static constexpr blocking_kind value = unifex::detail::_blocking<S>::value; };
int g_index = 0, g_selected = -1;
template <bool Dyn = true, class Mk>
void expr(const char* name, Mk mk) {
  if (g_index++ != g_selected) return;
  ex::Ctx ctx; ex::g = &ctx; ctx.defer_sched = true; ctx.leaves.resize(4);
  {
    auto snd = mk();
    using S = decltype(snd);
    constexpr blocking_kind bk = static_blocking<S>::value;
    constexpr bool sends_done = sender_traits<S>::sends_done;
    constexpr bool affine = sender_traits<S>::is_always_scheduler_affine;
    // (the run-time blocking() customisation of the let_* senders does not compile: inside the sender class the name
    // `blocking` finds the static data member, not the CPO - a compile-time matter, skipped)
    blocking_kind dyn_bk = blocking_kind::maybe;
    if constexpr (Dyn) dyn_bk = blocking(snd);
    kit::RcvState rs; rs.props = "C11,C01"; inplace_stop_source src; int cctx = -1;
    {
      auto op = unifex::connect(std::move(snd), TopRcv{&rs, src.get_token(), &cctx});
      ctx.cur_ctx = 7;             // started on the receiver's scheduler context
      rs.in_start = true;
      unifex::start(op);
      rs.in_start = false;
      ctx.cur_ctx = 0;
      bool completed_in_start = rs.count > 0;
      while (true) {
        std::vector<int> live;
        for (int i = 0; i < (int)ctx.pending.size(); ++i) if (ctx.pending[i].alive) live.push_back(i);
        if (live.empty()) break;
        int c = vmcrt::choose((int)live.size());
        auto& p = ctx.pending[live[c]];
        p.alive = false;
        auto fire = std::move(p.fire);
        int save = ctx.cur_ctx; ctx.cur_ctx = p.sched_ctx >= 0 ? p.sched_ctx : 0;   // leaves complete on a foreign context
        fire();
        ctx.cur_ctx = save;
      }
      std::string n(name);
      vmc::check(rs.count == 1, "C11,C01", "lost-completion", n + ": not completed exactly once");
      auto chk = [&](blocking_kind k, const char* which) {
        if (k == blocking_kind::always_inline || k == blocking_kind::always) vmc::check(completed_in_start, "C11", "blocking-always", n + ": " + which + " says always(_inline) but the receiver was not completed before start() returned");
        if (k == blocking_kind::never) vmc::check(!completed_in_start, "C11", "blocking-never", n + ": " + which + " says never but the receiver was completed inside start()");
      };
      chk(bk, "sender_traits::blocking");
      chk(dyn_bk, "blocking(sender)");
      if (!sends_done) vmc::check(rs.how != 'D', "C11", "sends-done", n + ": sends_done is false but the sender completed with done");
      if (affine) vmc::check(cctx == 7, "C11", "not-affine", n + ": is_always_scheduler_affine but completed on context " + std::to_string(cctx) + " instead of the receiver's scheduler");
      vmc::note(n + ":" + std::string(1, rs.how) + (completed_in_start ? "i" : "a"));
    }
  }
  ex::g = nullptr;
}

int f1(int x) noexcept { return x + 1; }
template <class A, class B>
void binary(const std::string& a, const std::string& b) {
  auto nm = [&](const char* n) { return (std::string(n) + "(" + a + "," + b + ")"); };
  std::string s;
  s = nm("let_value"); expr<false>(s.c_str(), [] { return let_value(A{0}, [](int&) { return B{1}; }); });
  s = nm("let_error"); expr<false>(s.c_str(), [] { return let_error(A{0}, [](std::exception_ptr) { return B{1}; }); });
  s = nm("let_done"); expr<false>(s.c_str(), [] { return let_done(A{0}, [] { return B{1}; }); });
  s = nm("sequence"); expr(s.c_str(), [] { return sequence(then(A{0}, [](int) noexcept {}), B{1}); });
  s = nm("finally"); expr<false>(s.c_str(), [] { return finally(A{0}, then(B{1}, [](int) noexcept {})); });
  s = nm("when_all"); expr(s.c_str(), [] { return when_all(A{0}, B{1}); });
  s = nm("when_any"); expr<false>(s.c_str(), [] { return when_any(A{0}, B{1}); });
  s = nm("stop_when"); expr(s.c_str(), [] { return stop_when(A{0}, then(B{1}, [](int) noexcept {})); });
  s = nm("retry_when"); expr(s.c_str(), [] { return retry_when(A{0}, [](std::exception_ptr) { return then(B{1}, [](int) noexcept {}); }); });
}
template <class A>
void unary(const std::string& a) {
  auto nm = [&](const char* n) { return (std::string(n) + "(" + a + ")"); };
  std::string s;
  s = nm("leaf"); expr(s.c_str(), [] { return A{0}; });
  s = nm("then"); expr(s.c_str(), [] { return then(A{0}, f1); });
  s = nm("upon_error"); expr(s.c_str(), [] { return upon_error(A{0}, [](std::exception_ptr) noexcept { return 5; }); });
  s = nm("upon_done"); expr(s.c_str(), [] { return upon_done(A{0}, []() noexcept { return 6; }); });
  s = nm("mat_demat"); expr(s.c_str(), [] { return dematerialize(materialize(A{0})); });
  s = nm("done_as_optional"); expr(s.c_str(), [] { return done_as_optional(A{0}); });
  s = nm("unstoppable"); expr(s.c_str(), [] { return unstoppable(A{0}); });
  s = nm("via"); expr<false>(s.c_str(), [] { return via(A{0}, ex::tag_sched{7}); });
  s = nm("typed_via"); expr<false>(s.c_str(), [] { return typed_via(A{0}, ex::tag_sched{7}); });
  s = nm("on"); expr(s.c_str(), [] { return on(ex::tag_sched{7}, A{0}); });
  s = nm("on_inline"); expr(s.c_str(), [] { return on(inline_scheduler{}, A{0}); });
  s = nm("with_scheduler_affinity"); expr<false>(s.c_str(), [] { return with_scheduler_affinity(A{0}, ex::tag_sched{7}); });
  s = nm("let_value_with_stop_source"); expr(s.c_str(), [] { return let_value_with_stop_source([](inplace_stop_source&) { return A{0}; }); });
  s = nm("let_value_with"); expr(s.c_str(), [] { return let_value_with([] { return 3; }, [](int&) { return A{0}; }); });
  s = nm("detach_on_cancel"); expr(s.c_str(), [] { return detach_on_cancel(A{0}); });
  s = nm("allocate"); expr(s.c_str(), [] { return allocate(A{0}); });
}
void all_exprs() {
  g_index = 0;
  unary<IL>("I"); unary<DL>("D");
  binary<IL, IL>("I", "I"); binary<IL, DL>("I", "D"); binary<DL, IL>("D", "I"); binary<DL, DL>("D", "D");
  expr("just", [] { return just(1); });
  expr("just_done", [] { return just_done(); });
  expr("just_error", [] { return just_error(std::make_exception_ptr(kit::tagged_error{1})); });
  expr("just_from", [] { return just_from([]() noexcept { return 2; }); });
  expr("schedule(inline)", [] { return schedule(inline_scheduler{}); });
  expr("schedule(tag)", [] { return schedule(ex::tag_sched{7}); });
  expr("stop_if_requested", [] { return stop_if_requested(); });
  static v2::async_manual_reset_event set_evt{true};
  expr("v2event.async_wait(set)", [] { return set_evt.async_wait(); });
  static v1::async_manual_reset_event set_evt1{true};
  expr("v1event.async_wait(set)", [] { return set_evt1.async_wait(); });
}
}  // namespace

VMC_SEQ_HARNESS(traits_corpus, "C11,C01") {
  // first pass counts the corpus, then one expression is selected per execution
  static int total = -1;
  if (total < 0) { g_selected = -1; all_exprs(); total = g_index; }
  g_selected = vmc::choose(total);
  all_exprs();
}

// ---- completion context when a value's copy/move throws inside the hop ------------------------------------------
// via / typed_via / with_scheduler_affinity / finally(s, schedule(sched)) promise that the result is delivered on the
// scheduler's context whatever the channel.  The source completes on a foreign context with a value whose n-th
// copy/move throws (n enumerated, "never" included), the hop is a separate event that runs on the scheduler's context.
namespace {
int g_tv_countdown = -1;   // -1: never throws
struct TV {
  int v = 0;
  TV() = default;
  explicit TV(int x) : v(x) {}
  TV(const TV& o) : v(o.v) { tick(); }
  TV(TV&& o) : v(o.v) { tick(); }
  TV& operator=(const TV&) = default;
  static void tick() { if (g_tv_countdown >= 0 && g_tv_countdown-- == 0) throw kit::tagged_error{77}; }
};
struct TVLeaf {
  template <template <class...> class V, template <class...> class T> using value_types = V<T<TV>>;
  template <template <class...> class V> using error_types = V<std::exception_ptr>;
  static constexpr bool sends_done = false;
  template <class R>
  struct Op {
    R r;
    void start() noexcept {
      ex::g->pending.push_back(ex::Pending{0, 3, [this] {
        TV v{5};
        UNIFEX_TRY { unifex::set_value(std::move(r), std::move(v)); }
        UNIFEX_CATCH(...) { unifex::set_error(std::move(r), std::current_exception()); }
      }, true});
    }
  };
  template <class R> Op<std::decay_t<R>> connect(R&& r) const& { return Op<std::decay_t<R>>{(R&&)r}; }
};
template <class Mk>
void hop_case(const char* name, Mk mk, int expect_ctx) {
  ex::Ctx ctx; ex::g = &ctx; ctx.defer_sched = true;
  kit::RcvState rs; rs.props = "C11,C01"; inplace_stop_source src; int cctx = -1;
  {
    auto snd = mk();
    auto op = unifex::connect(std::move(snd), TopRcv{&rs, src.get_token(), &cctx});
    ctx.cur_ctx = 7;
    unifex::start(op);
    ctx.cur_ctx = 0;
    for (size_t i = 0; i < ctx.pending.size(); ++i) {
      if (!ctx.pending[i].alive) continue;
      ctx.pending[i].alive = false;
      auto fire = std::move(ctx.pending[i].fire);
      int save = ctx.cur_ctx; ctx.cur_ctx = ctx.pending[i].sched_ctx >= 0 ? ctx.pending[i].sched_ctx : 0;
      fire();
      ctx.cur_ctx = save;
    }
    if (rs.count != 1) vmcrt::fail("C01,C11", "lost-completion", (std::string(name) + ": completed " + std::to_string(rs.count) + " times").c_str());
    if (cctx != expect_ctx)
      vmcrt::fail("C11", "wrong-context", (std::string(name) + ": completed with " + rs.str() + " on context " + std::to_string(cctx) + ", promised " + std::to_string(expect_ctx)).c_str());
  }
  if (ctx.sched_ops_alive != 0) vmcrt::fail("C02", "sched-op-leak", "schedule() operation leaked");
  vmcrt::note((std::string(name) + ":" + rs.str()).c_str());
  ex::g = nullptr;
}
}  // namespace
VMC_SEQ_HARNESS(ctx_throwing_value, "C11,C05") {
  int which = vmcrt::choose(5);
  g_tv_countdown = vmcrt::choose(7) - 1;   // never, or the 1st .. 6th copy/move throws
  switch (which) {
    case 0: hop_case("via", [] { return via(TVLeaf{}, ex::tag_sched{9}); }, 9); break;
    case 1: hop_case("typed_via", [] { return typed_via(TVLeaf{}, ex::tag_sched{9}); }, 9); break;
    case 2: hop_case("with_scheduler_affinity", [] { return with_scheduler_affinity(TVLeaf{}, ex::tag_sched{9}); }, 9); break;
    case 3: hop_case("finally(schedule)", [] { return finally(TVLeaf{}, schedule(ex::tag_sched{9})); }, 9); break;
    default: hop_case("then(via)", [] { return then(via(TVLeaf{}, ex::tag_sched{9}), [](TV v) { return v.v; }); }, 9); break;
  }
  g_tv_countdown = -1;
}
