// vmc — explorer: preemption-bounded DFS (odometer form) over choice lists, forked worker pool with
// crash containment, shared happens-before-prefix cache, replay, JSON report.
// Compiled without the prelude and without sanitizers.
#include "vmc_int.hpp"
#include <algorithm>
#include <cerrno>
#include <chrono>
#include <csignal>
#include <cstdio>
#include <cstdlib>
#include <cstring>
#include <deque>
#include <fcntl.h>
#include <map>
#include <poll.h>
#include <sched.h>
#include <string>
#include <sys/mman.h>
#include <sys/socket.h>
#include <sys/stat.h>
#include <sys/wait.h>
#include <unistd.h>
#include <unordered_map>
#include <vector>

namespace vmcrt {
namespace {
using Clock = std::chrono::steady_clock;
double now_s() { return std::chrono::duration<double>(Clock::now().time_since_epoch()).count(); }

struct Task { std::vector<uint16_t> prefix; uint32_t floor = 0; };

int alt_cost(const PointRec& p, uint32_t alt) {
  if (alt == 0) return 0;
  if (p.flags & (PF_PREEMPT | PF_COSTALL)) return 1;
  if ((p.flags & PF_LASTCOST) && alt == (uint32_t)p.n - 1) return 1;
  return 0;
}

// enumerate the unexplored siblings that remain after the execution recorded in `rec`
// (positions >= floor). deepest_only: return just the next prefix in DFS order.
bool remaining(const ExecRec& rec, uint32_t npts, uint32_t floor, int bound, bool deepest_only, std::vector<Task>& out) {
  uint32_t L = rec.prefix_len;
  uint32_t limit = npts;
  if (rec.prune_pos >= 0 && (uint32_t)rec.prune_pos < limit) limit = (uint32_t)rec.prune_pos;
  if (limit < L) limit = L;
  static std::vector<int> cost;  // cost before position i
  cost.assign(npts + 1, 0);
  for (uint32_t i = 0; i < npts; ++i) cost[i + 1] = cost[i] + alt_cost(rec.pts[i], rec.pts[i].chosen);
  bool any = false;
  for (int64_t i = (int64_t)std::min<uint32_t>(npts, limit) - 1; i >= (int64_t)floor; --i) {
    const PointRec& p = rec.pts[i];
    for (uint32_t alt = p.chosen + 1u; alt < p.n; ++alt) {
      if (cost[i] + alt_cost(p, alt) > bound) continue;
      Task t; t.floor = (uint32_t)i + 1;
      t.prefix.resize(i + 1);
      for (int64_t j = 0; j < i; ++j) t.prefix[j] = rec.pts[j].chosen;
      t.prefix[i] = (uint16_t)alt;
      out.push_back(std::move(t));
      any = true;
      if (deepest_only) return true;
    }
  }
  return any;
}

// ---- wire helpers ----
bool write_all(int fd, const void* b, size_t n) {
  const char* p = (const char*)b;
  while (n) { ssize_t r = ::write(fd, p, n); if (r < 0) { if (errno == EINTR) continue; return false; } p += r; n -= (size_t)r; }
  return true;
}
bool read_all(int fd, void* b, size_t n) {
  char* p = (char*)b;
  while (n) { ssize_t r = ::read(fd, p, n); if (r < 0) { if (errno == EINTR) continue; return false; } if (r == 0) return false; p += r; n -= (size_t)r; }
  return true;
}
struct Buf {
  std::vector<char> d; size_t rp = 0;
  void u32(uint32_t v) { d.insert(d.end(), (char*)&v, (char*)&v + 4); }
  void bytes(const void* p, size_t n) { d.insert(d.end(), (const char*)p, (const char*)p + n); }
  void str(const std::string& s) { u32((uint32_t)s.size()); bytes(s.data(), s.size()); }
  uint32_t g32() { uint32_t v; std::memcpy(&v, d.data() + rp, 4); rp += 4; return v; }
  std::string gstr() { uint32_t n = g32(); std::string s(d.data() + rp, n); rp += n; return s; }
  void gbytes(void* p, size_t n) { std::memcpy(p, d.data() + rp, n); rp += n; }
};
bool send_msg(int fd, const Buf& b) { uint32_t n = (uint32_t)b.d.size(); return write_all(fd, &n, 4) && write_all(fd, b.d.data(), n); }
bool recv_msg(int fd, Buf& b) { uint32_t n; if (!read_all(fd, &n, 4)) return false; b.d.resize(n); b.rp = 0; return n == 0 || read_all(fd, b.d.data(), n); }
void put_task(Buf& b, const Task& t) { b.u32(t.floor); b.u32((uint32_t)t.prefix.size()); b.bytes(t.prefix.data(), t.prefix.size() * 2); }
Task get_task(Buf& b) { Task t; t.floor = b.g32(); uint32_t n = b.g32(); t.prefix.resize(n); b.gbytes(t.prefix.data(), n * 2); return t; }

std::string choices_str(const ExecRec& rec, uint32_t n) {
  std::string s;
  for (uint32_t i = 0; i < n; ++i) { if (i) s += ','; s += std::to_string(rec.pts[i].chosen); }
  return s;
}

// ---- worker ----
struct Options {
  std::string harness, out, stderr_dir = "/verif/build/run";
  int bound = 2, from_bound = 0, workers = 16;
  double deadline = 1e18;  // absolute, seconds
  double hang_timeout = 120;
  uint32_t max_failures = 200;
  bool cache = true;
  uint64_t max_steps = 200000;
  uint64_t cache_bits = 21;
  bool tso = false, spurious = false;
};

[[noreturn]] void worker_main(const HarnessInfo& h, int fd, int slot, const Options& opt) {
  std::string errpath = opt.stderr_dir + "/" + opt.harness + "." + std::to_string(getpid() % 100000) + ".w" + std::to_string(slot) + ".err";
  int efd = ::open(errpath.c_str(), O_CREAT | O_TRUNC | O_WRONLY, 0644);
  if (efd >= 0) { dup2(efd, 2); close(efd); }
  {
    // all logical threads of one worker share one core: a baton hand-off is then a same-core context
    // switch instead of a cross-core wake-up
    long ncpu = sysconf(_SC_NPROCESSORS_ONLN);
    cpu_set_t set; CPU_ZERO(&set); CPU_SET((int)((slot + (getenv("VMC_PIN_BASE") ? atoi(getenv("VMC_PIN_BASE")) : 0)) % (ncpu > 0 ? ncpu : 1)), &set);
    sched_setaffinity(0, sizeof set, &set);
  }
  std::unordered_map<std::string, uint32_t> outcomes;
  Buf in;
  for (;;) {
    if (!recv_msg(fd, in)) _exit(0);
    uint32_t type = in.g32();
    if (type == 2) _exit(0);
    uint32_t budget = in.g32();
    g_cfg.bound = (int)in.g32();
    Task task = get_task(in);
    g_rec->t_execs = 0; g_rec->t_steps = 0; g_rec->t_pruned = 0;
    g_rec->floor = task.floor;
    uint32_t floor = task.floor;
    std::vector<uint16_t> prefix = task.prefix;
    std::vector<Task> rest;
    std::vector<std::string> samples;
    uint32_t execs = 0;
    uint64_t digest = 0;
    outcomes.clear();
    for (;;) {
      if (lseek(2, 0, SEEK_CUR) > 0 && ftruncate(2, 0) == 0) lseek(2, 0, SEEK_SET);
      run_once(h, prefix.data(), (uint32_t)prefix.size());
      ++execs;
      g_rec->t_execs.fetch_add(1, std::memory_order_relaxed);
      g_rec->t_steps.fetch_add(g_rec->steps + (h.sequential ? g_rec->npoints.load() : 0), std::memory_order_relaxed);
      if (g_rec->prune_pos >= 0) g_rec->t_pruned.fetch_add(1, std::memory_order_relaxed);
      if (h.sequential) g_ctl->states.fetch_add(g_rec->npoints.load() - (uint32_t)prefix.size() + 1, std::memory_order_relaxed);
      std::string& oc = current_outcome();
      { uint64_t hsh = 1469598103934665603ull; for (unsigned char ch : oc) { hsh ^= ch; hsh *= 1099511628211ull; } digest += hsh * 0x9e3779b97f4a7c15ull + 1; }
      bool fresh = !outcomes.count(oc);
      if (outcomes.size() < 20000 || !fresh) ++outcomes[oc]; else ++outcomes["<more>"];
      if (fresh && outcomes.size() <= 64) {
        // a new distinct outcome: report the accumulated counts right away so that they survive a later
        // death of this worker (crash containment / expected std::terminate)
        Buf ob; ob.u32(2); ob.u32((uint32_t)outcomes.size());
        for (auto& kv : outcomes) { ob.u32(kv.second); ob.str(kv.first); }
        if (!send_msg(fd, ob)) _exit(0);
        for (auto& kv : outcomes) kv.second = 0;
      }
      uint32_t np = g_rec->npoints.load();
      if (samples.size() < 2 && np <= 400) samples.push_back(choices_str(*g_rec, np) + " => " + oc);
      rest.clear();
      if (g_ctl->stop.load(std::memory_order_relaxed) != 0) {
        remaining(*g_rec, np, floor, g_cfg.bound, false, rest);  // hand everything back unexplored
        break;
      }
      if (execs % budget == 0 && g_ctl->hungry.load(std::memory_order_relaxed)) {
        // donate the shallower half of the pending alternatives (the biggest subtrees) and keep the rest
        remaining(*g_rec, np, floor, g_cfg.bound, false, rest);  // deepest first
        if (rest.size() >= 2) {
          uint32_t split = rest[rest.size() / 2].floor - 1;  // branching position of the median entry
          if (split == rest.front().floor - 1) split = rest.front().floor - 1;  // all at one position: keep that position
          Buf don; don.u32(1); uint32_t nd = 0;
          for (auto& t : rest) if (t.floor - 1 < split) ++nd;
          if (nd > 0) {
            don.u32(nd);
            for (auto& t : rest) if (t.floor - 1 < split) put_task(don, t);
            if (!send_msg(fd, don)) _exit(0);
            floor = split;
            g_rec->floor = floor;
          }
        }
        rest.clear();
      }
      if (!remaining(*g_rec, np, floor, g_cfg.bound, true, rest)) break;
      prefix = std::move(rest[0].prefix);
      rest.clear();
    }
    g_rec->status = RS_IDLE;
    Buf out;
    out.u32(0);
    out.u32((uint32_t)rest.size());
    for (auto& t : rest) put_task(out, t);
    out.u32((uint32_t)outcomes.size());
    for (auto& kv : outcomes) { out.u32(kv.second); out.str(kv.first); }
    out.u32((uint32_t)samples.size());
    for (auto& s : samples) out.str(s);
    out.u32((uint32_t)(digest & 0xffffffffu)); out.u32((uint32_t)(digest >> 32));
    if (!send_msg(fd, out)) _exit(0);
  }
}

struct Failure { std::string sig, props, key, msg, choices, outcome, detail; int bound = 0; uint64_t count = 0; };
struct BoundStats { int bound = 0; uint64_t execs = 0, steps = 0, pruned = 0, states = 0; bool complete = true; double wall = 0; };

struct Slot { pid_t pid = -1; int fd = -1; bool busy = false; ExecRec* rec = nullptr; uint64_t last_beat = 0; double last_change = 0; Task cur; std::string errpath; };

std::string read_file_tail(const std::string& p, size_t max) {
  FILE* f = std::fopen(p.c_str(), "r");
  if (!f) return "";
  std::string s; char buf[4096]; size_t n;
  while ((n = std::fread(buf, 1, sizeof buf, f)) > 0) { s.append(buf, n); if (s.size() > 4 * max) s.erase(0, s.size() - 2 * max); }
  std::fclose(f);
  if (s.size() > max) s = s.substr(0, max);
  return s;
}

std::string strip_templates(std::string f) {
  std::string o; int depth = 0;
  for (char c : f) { if (c == '<') ++depth; else if (c == '>') { if (depth) --depth; } else if (!depth) o += c; }
  size_t p = o.find('(');
  if (p != std::string::npos) o = o.substr(0, p);
  // drop return type if any
  size_t sp = o.rfind(' ');
  if (sp != std::string::npos) o = o.substr(sp + 1);
  return o;
}

// derive (key, msg) from a sanitizer report / crash
void classify_crash(const std::string& err, int wstatus, std::string& key, std::string& msg) {
  size_t as = err.find("Assertion `");
  if (as == std::string::npos) as = err.find("Assertion '");
  if (as != std::string::npos) {
    size_t b = err.rfind('\n', as); b = b == std::string::npos ? 0 : b + 1;
    size_t e = err.find('\n', as);
    msg = err.substr(b, e - b);
    size_t q = as + 10;
    key = "assert:" + err.substr(q + 1, err.find_first_of("'`", q + 1) - q - 1);
    return;
  }
  size_t a = err.find("ERROR: AddressSanitizer: ");
  const char* san = "asan";
  if (a == std::string::npos) { a = err.find("WARNING: ThreadSanitizer: "); san = "tsan"; }
  if (a == std::string::npos) { a = err.find("ERROR: LeakSanitizer: "); san = "lsan"; }
  if (a != std::string::npos) {
    size_t c = err.find(": ", a + 8) + 2;
    size_t e = err.find_first_of(" \n", c);
    std::string kind = err.substr(c, e - c);
    if (std::string(san) == "tsan") { e = err.find_first_of("(\n", c); kind = err.substr(c, e - c); while (!kind.empty() && kind.back() == ' ') kind.pop_back(); std::replace(kind.begin(), kind.end(), ' ', '-'); }
    // the first three distinct frames that are in the repository's sources (innermost first)
    std::string func;
    size_t pos = a;
    int nf = 0; std::string last;
    size_t stop_at = err.find("\n\n", a);   // only the faulting stack, not the alloc/free stacks
    while (nf < 3 && (pos = err.find("\n    #", pos)) != std::string::npos && (stop_at == std::string::npos || pos < stop_at)) {
      size_t eol = err.find('\n', pos + 1);
      std::string line = err.substr(pos + 1, eol - pos - 1);
      pos = eol == std::string::npos ? err.size() : eol;
      if (line.find("unifex") == std::string::npos) continue;
      size_t in = line.find(" in ");
      size_t skip = 4;
      if (in == std::string::npos) {
        // ThreadSanitizer frames: "    #0 function /path/file:line:col (module+0x...)"
        in = line.find(' ', line.find('#'));
        skip = 1;
        if (in == std::string::npos) continue;
      }
      size_t fe = line.find(" /", in + skip);
      std::string fn = strip_templates(line.substr(in + skip, fe == std::string::npos ? std::string::npos : fe - in - skip));
      size_t ns = fn.find("unifex::");
      if (ns != std::string::npos) fn = fn.substr(ns + 8);
      if (fn.empty() || fn == last || fn.find("unifex") != std::string::npos && fn.size() > 80) continue;
      last = fn;
      func += (nf ? "<" : "") + fn;
      ++nf;
    }
    key = std::string(san) + ":" + kind + (func.empty() ? "" : ":" + func);
    size_t eol = err.find('\n', a);
    msg = err.substr(a, eol - a);
    return;
  }
  if (WIFSIGNALED(wstatus)) { key = "crash:signal" + std::to_string(WTERMSIG(wstatus)); msg = "worker killed by signal " + std::to_string(WTERMSIG(wstatus)); }
  else { key = "crash:exit" + std::to_string(WEXITSTATUS(wstatus)); msg = "worker exited with status " + std::to_string(WEXITSTATUS(wstatus)); }
  if (!err.empty()) msg += ": " + err.substr(0, 300);
}

std::string json_escape(const std::string& s) {
  std::string o;
  for (unsigned char c : s) {
    if (c == '"' || c == '\\') { o += '\\'; o += (char)c; }
    else if (c == '\n') o += "\\n";
    else if (c == '\t') o += "\\t";
    else if (c < 0x20 || c >= 0x7f) { char b[8]; std::snprintf(b, sizeof b, "\\u%04x", c); o += b; }
    else o += (char)c;
  }
  return o;
}

struct Explorer {
  const HarnessInfo& h; Options opt;
  std::vector<Slot> slots;
  std::deque<Task> queue;
  std::map<std::string, Failure> failures;
  std::map<std::string, uint64_t> outcomes;
  std::vector<std::string> samples;
  std::vector<BoundStats> bounds;
  uint64_t total_fail_execs = 0;
  bool capped = false;
  uint64_t outcome_digest = 0;   // commutative hash over the outcome strings of all executions
  size_t cache_bytes = 0;
  int idle_deaths = 0;

  Explorer(const HarnessInfo& hh, const Options& o) : h(hh), opt(o) {}

  void spawn_worker(int i) {
    Slot& s = slots[i];
    int sv[2];
    if (socketpair(AF_UNIX, SOCK_STREAM, 0, sv) != 0) { std::perror("socketpair"); std::exit(2); }
    std::fflush(stdout); std::fflush(stderr);
    pid_t pid = fork();
    if (pid < 0) { std::perror("fork"); std::exit(2); }
    if (pid == 0) {
      close(sv[0]);
      for (auto& o : slots) if (o.fd >= 0) close(o.fd);
      g_rec = s.rec;
      worker_main(h, sv[1], i, opt);
    }
    close(sv[1]);
    s.pid = pid; s.fd = sv[0]; s.busy = false;
    s.errpath = opt.stderr_dir + "/" + opt.harness + "." + std::to_string(pid % 100000) + ".w" + std::to_string(i) + ".err";
  }

  void add_failure(Failure f) {
    ++total_fail_execs;
    f.sig = h.name + std::string("|") + f.key;
    auto it = failures.find(f.sig);
    if (it == failures.end()) { f.count = 1; failures[f.sig] = std::move(f); }
    else ++it->second.count;
  }

  void merge_outcome(const std::string& s, uint64_t n) {
    if (outcomes.size() < 100000 || outcomes.count(s)) outcomes[s] += n; else outcomes["<more>"] += n;
  }

  void handle_death(int i, int wstatus, BoundStats& bs, bool hang) {
    Slot& s = slots[i];
    ExecRec& rec = *s.rec;
    uint32_t np = rec.npoints.load();
    bs.execs += rec.t_execs.load(); bs.steps += rec.t_steps.load(); bs.pruned += rec.t_pruned.load();
    if (s.busy) {
      bs.execs += 1; bs.steps += rec.steps;
      if (rec.status == RS_EXPECTED_TERMINATE) {
        merge_outcome(rec.outcome, 1);
      } else {
        Failure f; f.bound = bs.bound; f.choices = choices_str(rec, np); f.outcome = rec.outcome;
        if (hang) { f.props = "*"; f.key = "hang"; f.msg = "execution made no progress for " + std::to_string((int)opt.hang_timeout) + " s of wall time (unbounded non-synchronising loop or real blocking)"; }
        else if (rec.status == RS_FAILED) { f.props = rec.props; f.key = rec.key; f.msg = rec.msg; }
        else {
          std::string err = read_file_tail(s.errpath, 60000);
          f.props = "*";
          classify_crash(err, wstatus, f.key, f.msg);
          f.detail = err.substr(0, 30000);
        }
        add_failure(std::move(f));
      }
      // everything lexicographically after the dead execution inside its task is still to be explored
      std::vector<Task> rest;
      if (rec.status != RS_IDLE) remaining(rec, np, rec.floor, bs.bound, false, rest);
      else if (++idle_deaths <= 50) rest.push_back(s.cur);  // died before running anything: retry the task
      else { std::fprintf(stderr, "[vmc] engine error: workers keep dying before executing anything\n"); std::exit(2); }
      for (auto& t : rest) queue.push_back(std::move(t));
    }
    close(s.fd); s.fd = -1; s.pid = -1; s.busy = false;
    ::unlink(s.errpath.c_str());
  }

  void assign(int i) {
    Slot& s = slots[i];
    // hand out the shallowest pending branch (the largest subtree)
    size_t best = 0;
    for (size_t k = 1; k < queue.size() && k < 4096; ++k) if (queue[k].floor < queue[best].floor) best = k;
    Task t = std::move(queue[best]);
    queue[best] = std::move(queue.back()); queue.pop_back();
    uint32_t budget = h.sequential ? 256 : 16;  // executions between donation checks
    Buf b; b.u32(1); b.u32(budget); b.u32((uint32_t)g_cfg.bound); put_task(b, t);
    s.cur = std::move(t);
    s.rec->status = RS_IDLE;
    s.rec->npoints = 0;
    s.rec->floor = s.cur.floor;
    s.busy = true; s.last_beat = s.rec->heartbeat.load(); s.last_change = now_s();
    if (!send_msg(s.fd, b)) { /* death is noticed by poll */ }
  }

  BoundStats explore_bound(int bound) {
    BoundStats bs; bs.bound = bound;
    double t0 = now_s();
    g_cfg.bound = bound; g_cfg.use_cache = opt.cache && !h.sequential; g_cfg.max_steps = opt.max_steps; g_cfg.tso = opt.tso; g_cfg.spurious = opt.spurious;
    g_ctl->states = 0; g_ctl->stop = 0; g_ctl->cache_full = 0;
    if (g_cache && madvise(g_cache, cache_bytes, MADV_REMOVE) != 0) std::memset((void*)g_cache, 0, cache_bytes);  // zero the shared table
    queue.clear();
    queue.push_back(Task{});
    for (size_t i = 0; i < slots.size(); ++i) if (slots[i].pid < 0) spawn_worker((int)i);
    bool stopping = false;
    for (;;) {
      bool any_busy = false;
      g_ctl->hungry.store(queue.size() < 2 * slots.size() ? 1 : 0, std::memory_order_relaxed);
      for (size_t i = 0; i < slots.size(); ++i) {
        if (slots[i].pid < 0 && !stopping) spawn_worker((int)i);
        if (slots[i].pid >= 0 && !slots[i].busy && !queue.empty() && !stopping) assign((int)i);
        if (slots[i].busy) any_busy = true;
      }
      if (!any_busy && (queue.empty() || stopping)) break;
      std::vector<pollfd> pf;
      std::vector<int> idx;
      for (size_t i = 0; i < slots.size(); ++i) if (slots[i].busy) { pf.push_back(pollfd{slots[i].fd, POLLIN, 0}); idx.push_back((int)i); }
      int pr = poll(pf.data(), pf.size(), 200);
      double tn = now_s();
      if (pr > 0) {
        for (size_t k = 0; k < pf.size(); ++k) {
          if (!(pf[k].revents & (POLLIN | POLLHUP | POLLERR))) continue;
          int i = idx[k]; Slot& s = slots[i];
          Buf in;
          if (recv_msg(s.fd, in)) {
            uint32_t kind = in.g32();
            if (kind == 2) {
              uint32_t no = in.g32();
              for (uint32_t j = 0; j < no; ++j) { uint32_t c = in.g32(); std::string o = in.gstr(); if (c) merge_outcome(o, c); }
              continue;
            }
            uint32_t nt = in.g32();
            if (kind == 1) { for (uint32_t j = 0; j < nt; ++j) queue.push_back(get_task(in)); continue; }
            for (uint32_t j = 0; j < nt; ++j) queue.push_back(get_task(in));
            uint32_t no = in.g32();
            for (uint32_t j = 0; j < no; ++j) { uint32_t c = in.g32(); std::string o = in.gstr(); if (c) merge_outcome(o, c); }
            uint32_t ns = in.g32();
            for (uint32_t j = 0; j < ns; ++j) { std::string sm = in.gstr(); if (samples.size() < 6) samples.push_back("p<=" + std::to_string(bound) + ": " + sm); }
            { uint64_t lo = in.g32(), hi = in.g32(); outcome_digest += (hi << 32) | lo; }
            bs.execs += s.rec->t_execs.load(); bs.steps += s.rec->t_steps.load(); bs.pruned += s.rec->t_pruned.load();
            s.rec->t_execs = 0; s.rec->t_steps = 0; s.rec->t_pruned = 0;
            s.busy = false;
          } else {
            int st = 0; waitpid(s.pid, &st, 0);
            handle_death(i, st, bs, false);
          }
        }
      }
      // watchdog
      for (size_t i = 0; i < slots.size(); ++i) {
        Slot& s = slots[i];
        if (!s.busy) continue;
        uint64_t hb = s.rec->heartbeat.load() + s.rec->npoints.load();
        if (hb != s.last_beat) { s.last_beat = hb; s.last_change = tn; continue; }
        if (tn - s.last_change > opt.hang_timeout) {
          kill(s.pid, SIGKILL); int st = 0; waitpid(s.pid, &st, 0);
          handle_death((int)i, st, bs, true);
        }
      }
      if (!stopping && (tn > opt.deadline || total_fail_execs >= opt.max_failures)) {
        stopping = true; g_ctl->stop = 1;
        if (total_fail_execs >= opt.max_failures) capped = true;
      }
    }
    bs.complete = queue.empty() && !capped;
    bs.states = g_ctl->states.load();
    bs.wall = now_s() - t0;
    return bs;
  }

  void shutdown() {
    for (auto& s : slots) {
      if (s.pid < 0) continue;
      Buf b; b.u32(2); send_msg(s.fd, b);
      close(s.fd); int st; waitpid(s.pid, &st, 0);
      ::unlink(s.errpath.c_str());
      s.pid = -1; s.fd = -1;
    }
  }

  int run() {
    ::mkdir(opt.stderr_dir.c_str(), 0755);
    int nw = std::max(1, opt.workers);
    slots.resize(nw);
    for (auto& s : slots) {
      s.rec = (ExecRec*)mmap(nullptr, sizeof(ExecRec), PROT_READ | PROT_WRITE, MAP_SHARED | MAP_ANONYMOUS, -1, 0);
      if (s.rec == MAP_FAILED) { std::perror("mmap"); return 2; }
    }
    g_ctl = (SharedCtl*)mmap(nullptr, 4096, PROT_READ | PROT_WRITE, MAP_SHARED | MAP_ANONYMOUS, -1, 0);
    if (opt.cache && !h.sequential) {
      cache_bytes = sizeof(CacheEnt) << opt.cache_bits;
      g_cache = (CacheEnt*)mmap(nullptr, cache_bytes, PROT_READ | PROT_WRITE, MAP_SHARED | MAP_ANONYMOUS | MAP_NORESERVE, -1, 0);
      if (g_cache == MAP_FAILED) { g_cache = nullptr; }
      g_ctl->cache_mask = (1ull << opt.cache_bits) - 1;
    }
    signal(SIGPIPE, SIG_IGN);
    double t0 = now_s();
    int lo = h.sequential ? 0 : opt.from_bound, hi = h.sequential ? 0 : opt.bound;
    bool all_complete = true;
    for (int b = lo; b <= hi; ++b) {
      BoundStats bs = explore_bound(b);
      bounds.push_back(bs);
      std::fprintf(stderr, "[vmc] %s bound=%d executions=%lu states=%lu transitions=%lu pruned=%lu failures=%zu complete=%d %.1fs\n",
                   h.name, b, (unsigned long)bs.execs, (unsigned long)bs.states, (unsigned long)bs.steps, (unsigned long)bs.pruned, failures.size(), (int)bs.complete, bs.wall);
      if (!bs.complete) { all_complete = false; break; }
    }
    shutdown();
    write_report(now_s() - t0, all_complete);
    return failures.empty() ? 0 : 1;
  }

  void write_report(double wall, bool all_complete) {
    FILE* f = opt.out.empty() ? stdout : std::fopen(opt.out.c_str(), "w");
    if (!f) { std::perror("report"); return; }
    std::fprintf(f, "{\n \"harness\": \"%s\", \"props\": \"%s\", \"sequential\": %s, \"args\": [", h.name, h.props, h.sequential ? "true" : "false");
    for (size_t i = 0; i < g_args.size(); ++i) std::fprintf(f, "%s%d", i ? "," : "", g_args[i]);
    std::fprintf(f, "],\n \"wall_s\": %.2f, \"exhaustive\": %s, \"failure_cap_hit\": %s,\n \"bounds\": [", wall, all_complete ? "true" : "false", capped ? "true" : "false");
    for (size_t i = 0; i < bounds.size(); ++i) {
      auto& b = bounds[i];
      std::fprintf(f, "%s\n  {\"bound\": %d, \"executions\": %lu, \"states\": %lu, \"transitions\": %lu, \"pruned\": %lu, \"complete\": %s, \"wall_s\": %.2f}", i ? "," : "",
                   b.bound, (unsigned long)b.execs, (unsigned long)b.states, (unsigned long)b.steps, (unsigned long)b.pruned, b.complete ? "true" : "false", b.wall);
    }
    std::fprintf(f, "\n ],\n \"outcomes\": {");
    size_t k = 0;
    for (auto& kv : outcomes) { if (k >= 400) break; std::fprintf(f, "%s\n  \"%s\": %lu", k ? "," : "", json_escape(kv.first).c_str(), (unsigned long)kv.second); ++k; }
    std::fprintf(f, "\n },\n \"distinct_outcomes\": %zu,\n \"outcome_digest\": \"%016lx\",\n \"samples\": [", outcomes.size(), (unsigned long)outcome_digest);
    for (size_t i = 0; i < samples.size(); ++i) std::fprintf(f, "%s\n  \"%s\"", i ? "," : "", json_escape(samples[i]).c_str());
    std::fprintf(f, "\n ],\n \"failures\": [");
    k = 0;
    for (auto& kv : failures) {
      auto& x = kv.second;
      std::fprintf(f, "%s\n  {\"signature\": \"%s\", \"props\": \"%s\", \"key\": \"%s\", \"msg\": \"%s\", \"bound\": %d, \"count\": %lu, \"choices\": \"%s\", \"outcome\": \"%s\", \"detail\": \"%s\"}",
                   k ? "," : "", json_escape(x.sig).c_str(), json_escape(x.props).c_str(), json_escape(x.key).c_str(), json_escape(x.msg).c_str(), x.bound, (unsigned long)x.count,
                   x.choices.c_str(), json_escape(x.outcome).c_str(), json_escape(x.detail).c_str());
      ++k;
    }
    std::fprintf(f, "\n ]\n}\n");
    if (f != stdout) std::fclose(f);
  }
};

std::vector<uint16_t> parse_choices(const std::string& s) {
  std::vector<uint16_t> v; size_t i = 0;
  while (i < s.size()) { size_t j = s.find(',', i); if (j == std::string::npos) j = s.size(); if (j > i) v.push_back((uint16_t)std::atoi(s.substr(i, j - i).c_str())); i = j + 1; }
  return v;
}

// run one schedule in a forked child; returns a one-line description of what happened
std::string replay_once(const HarnessInfo& h, const std::vector<uint16_t>& choices, const Options& opt, bool show_err) {
  ExecRec* rec = (ExecRec*)mmap(nullptr, sizeof(ExecRec), PROT_READ | PROT_WRITE, MAP_SHARED | MAP_ANONYMOUS, -1, 0);
  ::mkdir(opt.stderr_dir.c_str(), 0755);
  std::string errpath = opt.stderr_dir + "/replay." + std::to_string(getpid()) + ".err";
  std::fflush(stdout); std::fflush(stderr);
  pid_t pid = fork();
  if (pid == 0) {
    int efd = ::open(errpath.c_str(), O_CREAT | O_TRUNC | O_WRONLY, 0644);
    if (efd >= 0) { dup2(efd, 2); close(efd); }
    g_rec = rec;
    g_cfg.bound = 1 << 20; g_cfg.use_cache = false; g_cfg.max_steps = opt.max_steps; g_cfg.tso = opt.tso; g_cfg.spurious = opt.spurious;
    run_once(h, choices.data(), (uint32_t)choices.size());
    _exit(0);
  }
  int st = 0;
  double t0 = now_s();
  bool hung = false;
  for (;;) {
    pid_t r = waitpid(pid, &st, WNOHANG);
    if (r == pid) break;
    if (now_s() - t0 > opt.hang_timeout * 2) { kill(pid, SIGKILL); waitpid(pid, &st, 0); hung = true; break; }
    usleep(2000);
  }
  std::string res;
  std::string err = read_file_tail(errpath, 400000);
  ::unlink(errpath.c_str());
  if (hung) res = "FAIL key=hang msg=no progress";
  else if (rec->status == RS_DONE) res = std::string("PASS outcome=") + rec->outcome;
  else if (rec->status == RS_EXPECTED_TERMINATE) res = std::string("PASS outcome=") + rec->outcome;
  else if (rec->status == RS_FAILED) res = std::string("FAIL key=") + rec->key + " msg=" + rec->msg;
  else { std::string key, msg; classify_crash(err, st, key, msg); res = "FAIL key=" + key + " msg=" + msg; }
  if (show_err && res[0] == 'F' && !err.empty()) std::fprintf(stderr, "%s\n", err.substr(0, 400000).c_str());
  munmap(rec, sizeof(ExecRec));
  return res;
}
}  // namespace

int main_driver(int argc, char** argv) {
  Options opt;
  std::string mode, choices;
  double rel_deadline = -1;
  for (int i = 1; i < argc; ++i) {
    std::string a = argv[i];
    auto next = [&]() -> std::string { if (i + 1 >= argc) { std::fprintf(stderr, "missing value for %s\n", a.c_str()); std::exit(2); } return argv[++i]; };
    if (a == "--list") mode = "list";
    else if (a == "--run") { mode = "run"; opt.harness = next(); }
    else if (a == "--replay") { mode = "replay"; opt.harness = next(); }
    else if (a == "--choices") choices = next();
    else if (a == "--args") { for (auto c : parse_choices(next())) g_args.push_back((int)(int16_t)c); }
    else if (a == "--bound") opt.bound = std::atoi(next().c_str());
    else if (a == "--from-bound") opt.from_bound = std::atoi(next().c_str());
    else if (a == "--workers") opt.workers = std::atoi(next().c_str());
    else if (a == "--deadline") rel_deadline = std::atof(next().c_str());
    else if (a == "--out") opt.out = next();
    else if (a == "--no-cache") opt.cache = false;
    else if (a == "--max-failures") opt.max_failures = (uint32_t)std::atoi(next().c_str());
    else if (a == "--max-steps") opt.max_steps = (uint64_t)std::atoll(next().c_str());
    else if (a == "--hang-timeout") opt.hang_timeout = std::atof(next().c_str());
    else if (a == "--stderr-dir") opt.stderr_dir = next();
    else if (a == "--tso") opt.tso = true;
    else if (a == "--spurious") opt.spurious = true;
    else if (a == "--cache-bits") opt.cache_bits = (uint64_t)std::atoi(next().c_str());
    else { std::fprintf(stderr, "unknown option %s\n", a.c_str()); return 2; }
  }
  if (rel_deadline > 0) opt.deadline = now_s() + rel_deadline;
  if (mode == "list") {
    for (auto& h : harnesses()) std::printf("%s %s %s\n", h.name, h.props, h.sequential ? "seq" : "mt");
    return 0;
  }
  const HarnessInfo* h = nullptr;
  for (auto& x : harnesses()) if (opt.harness == x.name) h = &x;
  if (!h) { std::fprintf(stderr, "no such harness: %s\n", opt.harness.c_str()); return 2; }
  if (mode == "run") { Explorer ex(*h, opt); return ex.run(); }
  if (mode == "replay") {
    auto ch = parse_choices(choices);
    std::string r1 = replay_once(*h, ch, opt, true);
    std::string r2 = replay_once(*h, ch, opt, false);
    std::printf("REPLAY1 %s\nREPLAY2 %s\n", r1.c_str(), r2.c_str());
    if (r1 != r2) { std::printf("REPLAY nondeterministic\n"); return 2; }
    if (r1.find("key=replay-divergence") != std::string::npos) { std::printf("REPLAY does not apply to this build (the schedule diverges from its recorded prefix)\n"); return 2; }
    return r1[0] == 'F' ? 1 : 0;
  }
  std::fprintf(stderr, "usage: --list | --run NAME [...] | --replay NAME --choices a,b,c\n");
  return 2;
}
}  // namespace vmcrt
