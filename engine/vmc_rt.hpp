// vmc — controlled scheduler + explorer runtime (interface).
// Compiled WITHOUT the macro prelude and WITHOUT sanitizers (see vmc_rt.cpp).
#pragma once
#include <cstdint>
#include <functional>
#include <string>
#include <vector>

namespace vmcrt {
enum Kind : int {
  K_LOAD = 0, K_STORE = 1, K_RMW = 2, K_FENCE = 3, K_LOCK = 4, K_UNLOCK = 5, K_SPAWN = 6, K_JOIN = 7,
  K_YIELD = 8, K_CHOICE = 9, K_END = 10, K_WAIT = 11, K_NOTIFY = 12, K_KERNEL = 13, K_TIME = 14
};

// ---- called by hooked primitives (prelude) ----
// scheduling point immediately before a visible operation
void point(const void* addr, int kind);
// after the operation executed: value seen / written (history hash, spin detection)
void observed(const void* addr, int kind, uint64_t value, bool wrote);

// ---- store-buffer (x86-TSO) mode, see vmc_rt.cpp ----
bool tso_active();
// a non-seq_cst store by the calling thread is about to be written through; old_bits = value in memory before it.
// The runtime decides (explored choice, one unit of budget) whether the store stays invisible to other threads.
void tso_store(const void* addr, uint64_t old_bits, uint64_t new_bits);
// the value other threads currently see for addr when its newest store(s) are still buffered by another thread:
// returns a pointer to the visible value (to be read, or updated by a store / read-modify-write ordered before the
// buffered store), or nullptr when memory is what the caller sees. mem_bits = what memory holds now (an entry whose written value is no longer in memory is stale and dropped).
uint64_t* tso_shadow(const void* addr, uint64_t mem_bits);
// observed() for an access that was served from / applied to the shadow value
void observed_shadow(const void* addr, int kind, uint64_t value, bool wrote);
void tso_drain_self();                      // seq_cst store / fence: the caller's buffered stores become visible

int spawn(std::function<void()> body);  // logical thread id
void join(int tid);
int self();          // logical thread id, -1 outside the scheduler
bool active();       // true while an execution is in progress
void yield_now();

struct Mutex { int owner = -1; int depth = 0; };
// (the caller announces the scheduling point itself with point(m, K_LOCK/K_UNLOCK) first)
void mutex_lock(Mutex* m, bool recursive = false);
bool mutex_try_lock(Mutex* m, bool recursive = false);
void mutex_unlock(Mutex* m);
void mutex_destroyed(Mutex* m);  // reports destruction of a mutex that is held or has blocked waiters
struct CondVar { std::vector<int> waiters; };
// (caller announces point(cv, K_WAIT/K_NOTIFY) first)
void cv_wait(CondVar* cv, Mutex* m);
void cv_notify(CondVar* cv, bool all);
bool cv_wait_until(CondVar* cv, Mutex* m, long long deadline_ns);  // true = timed out
void sleep_until_ns(long long deadline_ns);
struct OnceFlag { int state = 0; Mutex m; };  // 0 not run, 1 running, 2 done
void call_once_impl(OnceFlag* f, const std::function<void()>& fn);

// ---- virtual clock ----
long long now_ns();
void advance_ns(long long d);  // harness: move "now" forward (a visible step)

// ---- harness API ----
int choose(int n, const char* label = nullptr);  // explored data choice, 0..n-1
// blocks the calling logical thread until pred() is true (evaluated by the scheduler,
// must only read plain harness variables)
void wait_until(const std::function<bool()>& pred);
// generic blocking on an external (kernel) condition: disabled until ready() is true
void block_until_ready(const std::function<bool()>& ready);
// same, but also wakes when the virtual clock reaches deadline_ns (LLONG_MAX = never); returns ready()
bool block_until_ready_timed(const std::function<bool()>& ready, long long deadline_ns);
[[noreturn]] void fail(const char* props, const char* key, const char* msg);
void check(bool cond, const char* props, const char* key, const char* msg);
void note(const char* token);          // appended to this execution's outcome string
void note(const std::string& token);
void expect_terminate(bool on);        // std::terminate counts as the normal end of this execution
int arg(int i, int dflt = 0);          // harness integer arguments (--args a,b,c)
uint64_t execution_index();            // index of the current execution inside this worker (debug)

struct HarnessInfo {
  const char* name;
  const char* props;     // comma separated property ids served
  bool sequential;       // body runs without logical threads (choose() only)
  void (*body)();
};
void register_harness(const HarnessInfo& h);
struct Reg { Reg(const char* n, const char* p, bool seq, void (*b)()) { register_harness(HarnessInfo{n, p, seq, b}); } };

int main_driver(int argc, char** argv);
}  // namespace vmcrt

// VMC_EXEC_BEGIN / VMC_EXEC_END come from prelude.hpp (ThreadSanitizer flavour: order executions after one another)
#define VMC_HARNESS(NAME, PROPS)                                              \
  static void vmc_body_##NAME();                                              \
  static void vmc_wrap_##NAME() { VMC_EXEC_BEGIN(); vmc_body_##NAME(); VMC_EXEC_END(); } \
  static ::vmcrt::Reg vmc_reg_##NAME(#NAME, PROPS, false, &vmc_wrap_##NAME);  \
  static void vmc_body_##NAME()
#define VMC_SEQ_HARNESS(NAME, PROPS)                                          \
  static void vmc_body_##NAME();                                              \
  static ::vmcrt::Reg vmc_reg_##NAME(#NAME, PROPS, true, &vmc_body_##NAME);   \
  static void vmc_body_##NAME()
