// vmc — controlled scheduler runtime.
// This TU is compiled WITHOUT the macro prelude and WITHOUT sanitizers: it uses the real std
// primitives and hands the baton over with raw futexes, so a sanitizer never mistakes the scheduler's
// serialisation for program synchronisation.
#include "vmc_int.hpp"
#include <algorithm>
#include <climits>
#include <cstdio>
#include <cstdlib>
#include <cstring>
#include <exception>
#include <link.h>
#include <linux/futex.h>
#include <memory>
#include <pthread.h>
#include <sys/syscall.h>
#include <unistd.h>
#include <unordered_map>

extern "C" {
void AnnotateIgnoreReadsBegin(const char*, int) __attribute__((weak));
void AnnotateIgnoreReadsEnd(const char*, int) __attribute__((weak));
void AnnotateIgnoreWritesBegin(const char*, int) __attribute__((weak));
void AnnotateIgnoreWritesEnd(const char*, int) __attribute__((weak));
void AnnotateIgnoreSyncBegin(const char*, int) __attribute__((weak));
void AnnotateIgnoreSyncEnd(const char*, int) __attribute__((weak));
}

namespace vmcrt {
ExecRec* g_rec = nullptr;
SharedCtl* g_ctl = nullptr;
CacheEnt* g_cache = nullptr;
RunConfig g_cfg;
std::vector<int> g_args;

namespace {
struct Ign {
  Ign() { if (AnnotateIgnoreReadsBegin) { AnnotateIgnoreReadsBegin("", 0); AnnotateIgnoreWritesBegin("", 0); AnnotateIgnoreSyncBegin("", 0); } }
  ~Ign() { if (AnnotateIgnoreReadsBegin) { AnnotateIgnoreSyncEnd("", 0); AnnotateIgnoreWritesEnd("", 0); AnnotateIgnoreReadsEnd("", 0); } }
};
enum St { RUNNABLE, BLOCKED, YIELDED, FINISHED };
enum WaitKind { W_NONE, W_MUTEX, W_CV, W_JOIN, W_PRED, W_SLEEP };
struct T {
  int id = 0;
  std::atomic<int> go{0};
  St st = RUNNABLE;
  WaitKind wk = W_NONE;
  Mutex* wm = nullptr;
  CondVar* wcv = nullptr;
  int wtid = -1;
  const std::function<bool()>* wpred = nullptr;
  bool timed = false;
  long long deadline = LLONG_MAX;
  pthread_t os{};
  std::function<void()> body;
  uint64_t hist = 0x9e3779b97f4a7c15ull;
  uint64_t ring_epoch = ~0ull;
  std::vector<std::pair<const void*, uint64_t>> ring;
  // store-buffer mode: stores of this thread that are not yet visible to the others. The store itself has been written
  // through to memory (so the owner reads its own writes and memory safety is exactly that of the SC run); `visible` is
  // what every other thread still sees at that address, `vis_lochash` the identity of that visible write.
  struct SbEnt { const void* addr; uint64_t visible; uint64_t vis_lochash; uint64_t written; };
  std::vector<SbEnt> sb;
};

std::atomic<int> g_ctl_go{0};
long futex(std::atomic<int>* a, int op, int v) { return syscall(SYS_futex, (int*)a, op, v, nullptr, nullptr, 0); }
void fwait(std::atomic<int>* a) {
  while (a->load(std::memory_order_acquire) == 0) futex(a, FUTEX_WAIT_PRIVATE, 0);
  a->store(0, std::memory_order_relaxed);
}
void fwake(std::atomic<int>* a) {
  a->store(1, std::memory_order_release);
  futex(a, FUTEX_WAKE_PRIVATE, INT_MAX);
}

std::vector<std::unique_ptr<T>> g_threads;
thread_local int tl_self = -1;
thread_local bool tl_in_rt = false;
bool g_active = false;
bool g_sequential = false;
const uint16_t* g_prefix = nullptr;
uint32_t g_nprefix = 0;
uint64_t g_steps = 0;
uint64_t g_write_epoch = 0;
int g_sb_total = 0;  // buffered stores over all threads (store-buffer mode)
std::unordered_map<const void*, uint64_t> g_lochash;
int g_yield_rounds = 0;
int g_cost = 0;  // preemptions/deviations spent so far in this execution
constexpr long long kEpoch = 1000000000LL;
long long g_now = kEpoch;
bool g_expect_terminate = false;
uint64_t g_exec_index = 0;
std::string g_outcome;
std::vector<HarnessInfo>* g_harnesses = nullptr;

inline uint64_t mix(uint64_t h, uint64_t v) {
  h ^= v + 0x9e3779b97f4a7c15ull + (h << 6) + (h >> 2);
  h *= 0xff51afd7ed558ccdull;
  h ^= h >> 33;
  return h;
}

// store-buffer mode: all buffered stores of t become visible (memory already holds them: the shadows are dropped)
void sb_flush(T& t) {
  if (t.sb.empty()) return;
  g_sb_total -= (int)t.sb.size();
  t.sb.clear();
  t.hist = mix(t.hist, 0xf1a5);
  ++g_write_epoch;
  g_yield_rounds = 0;
  for (auto& x : g_threads) if (x->st == YIELDED) x->st = RUNNABLE;
}

[[noreturn]] void die(const char* props, const char* key, const char* msg) {
  if (g_rec) {
    std::snprintf(g_rec->props, sizeof g_rec->props, "%s", props);
    std::snprintf(g_rec->key, sizeof g_rec->key, "%s", key);
    std::snprintf(g_rec->msg, sizeof g_rec->msg, "%s", msg);
    std::snprintf(g_rec->outcome, sizeof g_rec->outcome, "%s", g_outcome.c_str());
    g_rec->steps = g_steps;
    g_rec->status = RS_FAILED;
  }
  std::fprintf(stderr, "VMC-FAIL props=%s key=%s: %s\n", props, key, msg);
  std::fflush(stderr);
  _exit(42);
}

bool in_waiters(CondVar* cv, int id) {
  for (int w : cv->waiters) if (w == id) return true;
  return false;
}

bool can_run(T& t) {
  switch (t.wk) {
    case W_MUTEX: return t.wm->owner == -1;
    case W_CV:
      if (!in_waiters(t.wcv, t.id)) return t.wm->owner == -1;
      return t.timed && g_now >= t.deadline && t.wm->owner == -1;
    case W_JOIN: return g_threads[t.wtid]->st == FINISHED;
    case W_PRED: {
      if (t.timed && g_now >= t.deadline) return true;
      bool save = tl_in_rt; tl_in_rt = true;
      bool r = (*t.wpred)();
      tl_in_rt = save;
      return r;
    }
    case W_SLEEP: return g_now >= t.deadline;
    default: return true;
  }
}

std::string describe_blocked() {
  std::string s;
  for (auto& t : g_threads) {
    char buf[96];
    const char* st = t->st == FINISHED ? "finished" : t->st == YIELDED ? "spinning" : t->st == RUNNABLE ? "runnable" : "";
    if (t->st == BLOCKED) {
      const char* wk = t->wk == W_MUTEX ? "mutex" : t->wk == W_CV ? "condvar" : t->wk == W_JOIN ? "join" : t->wk == W_PRED ? "wait_until/kernel" : "sleep";
      std::snprintf(buf, sizeof buf, " T%d:blocked(%s%s)", t->id, wk, t->wk == W_JOIN ? (" T" + std::to_string(t->wtid)).c_str() : "");
    } else {
      std::snprintf(buf, sizeof buf, " T%d:%s", t->id, st);
    }
    s += buf;
  }
  return s;
}

uint64_t state_hash(int self, uint64_t salt) {
  uint64_t h = mix(salt, (uint64_t)(self + 2));
  h = mix(h, (uint64_t)(g_now - kEpoch));
  for (auto& t : g_threads) h = mix(h, mix(t->hist, (uint64_t)t->st * 31 + (uint64_t)t->wk * 7 + t->ring.size() * 131 + t->sb.size() * 1009 + t->id));
  return h;
}

// returns true when this state was already expanded with at least `rem` budget left
bool cache_seen(uint64_t h1, uint64_t h2, int rem) {
  if (!g_cache) return false;
  h1 |= 1;
  uint64_t tag = (h2 & ~0xffull);
  if (tag == 0) tag = 0x100;
  uint64_t want = tag | (uint64_t)(rem & 0xff);
  uint64_t mask = g_ctl->cache_mask;
  uint64_t idx = (h1 >> 7) & mask;
  for (int probe = 0; probe < 128; ++probe, idx = (idx + 1) & mask) {
    CacheEnt& e = g_cache[idx];
    uint64_t k = e.k1.load(std::memory_order_acquire);
    if (k == 0) {
      if (g_ctl->cache_full.load(std::memory_order_relaxed)) return false;
      uint64_t exp = 0;
      if (e.k1.compare_exchange_strong(exp, h1, std::memory_order_acq_rel)) {
        e.v.store(want, std::memory_order_release);
        uint64_t n = g_ctl->states.fetch_add(1, std::memory_order_relaxed) + 1;
        if (n > (mask + 1) * 6 / 10) g_ctl->cache_full.store(1, std::memory_order_relaxed);
        return false;
      }
      k = exp;
    }
    if (k == h1) {
      uint64_t v = e.v.load(std::memory_order_acquire);
      if (v == 0) return false;  // being inserted by another worker
      if ((v & ~0xffull) != tag) continue;
      int old = (int)(v & 0xff);
      if (old >= rem) return true;
      e.v.store(want, std::memory_order_release);
      return false;
    }
  }
  return false;
}

void record_point(uint32_t n, uint32_t chosen, uint8_t flags) {
  uint32_t pos = g_rec->npoints.load(std::memory_order_relaxed);
  if (pos >= MAXPTS) die("*", "horizon", "too many choice points in one execution");
  g_rec->pts[pos] = PointRec{(uint16_t)n, (uint16_t)chosen, flags, {0, 0, 0}};
  g_rec->npoints.store(pos + 1, std::memory_order_release);
}

// Decide who runs next. self_enabled: the caller could continue. self_yielding: the caller just yielded
// (it may be continued at a cost of one unit).
int decide(int self, bool self_enabled, bool self_yielding) {
  int en[64]; int n = 0;
  auto collect = [&] {
    n = 0;
    if (self_enabled) en[n++] = self;
    for (auto& t : g_threads) {
      if (t->id == self && (self_enabled || self_yielding)) continue;
      if (t->st == RUNNABLE || (t->st == BLOCKED && can_run(*t))) { if (n < 63) en[n++] = t->id; }
    }
  };
  collect();
  if (n == 0) {
    // nothing but spinners/blocked: let virtual time pass to the earliest deadline
    long long mn = LLONG_MAX;
    for (auto& t : g_threads) if (t->st == BLOCKED && t->timed && t->deadline < mn) mn = t->deadline;
    if (mn != LLONG_MAX && mn > g_now) { g_now = mn; collect(); }
  }
  bool only_yielders = false;
  if (n == 0) {
    // round-robin among the spinners, the caller last: a spinner that yields (spin_wait -> this_thread::yield) right after
    // another thread's write has not looked at memory again yet and would make progress on its next turn; always
    // continuing the lowest id would starve it and report a livelock that is not one
    {
      int N = (int)g_threads.size();
      int base = self >= 0 ? self : 0;
      for (int k = 1; k <= N; ++k) {
        T& t = *g_threads[(base + k) % N];
        if (t.st == YIELDED || (t.id == self && self_yielding)) { if (n < 63) en[n++] = t.id; }
      }
    }
    if (n > 0) {
      only_yielders = true;
      if (++g_yield_rounds > 300) {
        std::string m = "livelock: only spinning threads remain and nobody makes progress;" + describe_blocked();
        die("*", "livelock", m.c_str());
      }
    }
  }
  if (n == 0) {
    bool all_fin = true;
    for (auto& t : g_threads) if (t->st != FINISHED) all_fin = false;
    if (all_fin) return -1;
    std::string m = "deadlock: no enabled thread;" + describe_blocked();
    die("*", "deadlock", m.c_str());
  }
  uint8_t flags = 0;
  if (self_enabled) flags |= PF_PREEMPT;
  // only spinners are left: the default is the fair (round-robin) successor; any other order costs one unit of the budget,
  // otherwise the explorer could starve a spinner that would make progress for ever and call the result a livelock
  if (only_yielders) flags |= PF_COSTALL;
  if (self_yielding && !only_yielders) { en[n++] = self; flags |= PF_LASTCOST; }
  if (n == 1) return en[0];  // forced move: not a choice point
  uint32_t pos = g_rec->npoints.load(std::memory_order_relaxed);
  int idx = 0;
  if (pos < g_nprefix) {
    idx = g_prefix[pos];
    if (idx >= n) die("!", "replay-divergence", "choice out of range while replaying a prefix");
  } else if (g_cfg.use_cache && g_rec->prune_pos < 0 && g_cache) {
    uint64_t h1 = state_hash(self_enabled ? self : -1 - (self_yielding ? 1 : 0), 0x1234);
    uint64_t h2 = state_hash(self_enabled ? self : -1 - (self_yielding ? 1 : 0), 0xabcdef);
    if (cache_seen(h1, h2, g_cfg.bound - g_cost)) g_rec->prune_pos = (int32_t)pos;
  }
  record_point((uint32_t)n, (uint32_t)idx, flags);
  if (idx != 0) {
    if (flags & (PF_PREEMPT | PF_COSTALL)) ++g_cost;
    else if ((flags & PF_LASTCOST) && idx == n - 1) ++g_cost;
  }
  return en[idx];
}

// hand the baton to `next` and wait until somebody hands it back
void switch_to(int self, int next) {
  if (next == self) return;
  T& nx = *g_threads[next];
  nx.st = RUNNABLE; nx.wk = W_NONE;
  fwake(&nx.go);
  fwait(&g_threads[self]->go);
}

// block the calling thread (its wait descriptor is already set) until the scheduler picks it again
void block_self(T& me) {
  sb_flush(me);   // a blocking call is a full barrier
  me.st = BLOCKED;
  for (;;) {
    int next = decide(me.id, false, false);
    if (next == me.id) break;
    switch_to(me.id, next);
    if (can_run(me)) break;
    me.st = BLOCKED;
  }
  me.st = RUNNABLE; me.wk = W_NONE; me.timed = false; me.deadline = LLONG_MAX;
}

// ---- OS thread pool ----
// Logical threads of successive executions are run on pooled OS threads (creating an OS thread under a
// sanitizer costs ~0.7 ms). Before a pooled thread takes a new logical thread, the executable's static TLS
// block is reset to its initial image, so thread_local state starts clean exactly as on a fresh thread.
struct OsThread {
  pthread_t th{};
  std::atomic<int> wake{0};
  std::atomic<int> idle{1};
  T* assigned = nullptr;
};
std::vector<OsThread*> g_pool;
std::atomic<int> g_busy{0};
struct TlsImage { size_t memsz = 0, filesz = 0; const void* init = nullptr; bool known = false; } g_tls;
int phdr_cb(struct dl_phdr_info* info, size_t, void* data) {
  if (info->dlpi_name && info->dlpi_name[0]) return 0;  // only the main executable
  for (int i = 0; i < info->dlpi_phnum; ++i) {
    const ElfW(Phdr)& ph = info->dlpi_phdr[i];
    if (ph.p_type != PT_TLS) continue;
    g_tls.memsz = ph.p_memsz; g_tls.filesz = ph.p_filesz;
    g_tls.init = (const void*)(info->dlpi_addr + ph.p_vaddr);
    g_tls.known = true;
    *(void**)data = info->dlpi_tls_data;
  }
  return 1;
}
void reset_exe_tls(void*& block) {
  if (!block) dl_iterate_phdr(phdr_cb, &block);
  if (!block || !g_tls.known) return;
  std::memcpy(block, g_tls.init, g_tls.filesz);
  std::memset((char*)block + g_tls.filesz, 0, g_tls.memsz - g_tls.filesz);
}

void run_logical(T* t) {
  tl_self = t->id;
  tl_in_rt = false;
  { Ign ig; fwait(&t->go); }
  t->body();
  Ign ig;
  tl_in_rt = true;
  sb_flush(*t);
  t->st = FINISHED;
  int id = t->id;
  int next = decide(id, false, false);
  tl_self = -1;
  if (next < 0) { fwake(&g_ctl_go); return; }
  T& nx = *g_threads[next];
  nx.st = RUNNABLE; nx.wk = W_NONE;
  fwake(&nx.go);
}

// Under ThreadSanitizer (its runtime is linked statically and keeps its per-thread state in the executable's TLS
// block) OS threads are not pooled and the TLS block is never rewritten: every logical thread gets a fresh OS thread,
// which is joined at the end of the execution.
bool no_pool() { return AnnotateIgnoreReadsBegin != nullptr; }

void* pool_main(void* p) {
  OsThread* me = static_cast<OsThread*>(p);
  void* tls_block = nullptr;
  for (;;) {
    { Ign ig; fwait(&me->wake); }
    T* t = me->assigned;
    if (!no_pool()) reset_exe_tls(tls_block);
    run_logical(t);
    bool once = no_pool();
    me->idle.store(once ? 2 : 1, std::memory_order_release);
    if (g_busy.fetch_sub(1, std::memory_order_acq_rel) == 1) futex(&g_busy, FUTEX_WAKE_PRIVATE, INT_MAX);
    if (once) break;
  }
  return nullptr;
}

void start_os_thread(T* raw) {
  OsThread* os = nullptr;
  for (auto* o : g_pool) if (o->idle.load(std::memory_order_acquire) == 1) { os = o; break; }
  if (!os) {
    os = new OsThread();
    pthread_attr_t a; pthread_attr_init(&a);
    pthread_attr_setstacksize(&a, 4 << 20);
    if (pthread_create(&os->th, &a, pool_main, os) != 0) { std::perror("pthread_create"); _exit(3); }
    pthread_attr_destroy(&a);
    g_pool.push_back(os);
  }
  os->idle.store(0, std::memory_order_relaxed);
  os->assigned = raw;
  g_busy.fetch_add(1, std::memory_order_acq_rel);
  fwake(&os->wake);
}
void wait_all_os_idle() {
  for (;;) {
    int b = g_busy.load(std::memory_order_acquire);
    if (b == 0) break;
    futex(&g_busy, FUTEX_WAIT_PRIVATE, b);
  }
  if (no_pool()) {
    for (auto* o : g_pool) { pthread_join(o->th, nullptr); delete o; }
    g_pool.clear();
  }
}

void terminate_handler() {
  if (g_expect_terminate && g_rec) {
    g_outcome += " terminated";
    std::snprintf(g_rec->outcome, sizeof g_rec->outcome, "%s", g_outcome.c_str());
    g_rec->steps = g_steps;
    g_rec->status = RS_EXPECTED_TERMINATE;
    _exit(44);
  }
  const char* what = "std::terminate called";
  std::string m = what;
  if (auto e = std::current_exception()) {
    try { std::rethrow_exception(e); } catch (const std::exception& ex) { m += std::string(" with uncaught exception: ") + ex.what(); } catch (...) { m += " with uncaught exception"; }
  }
  die("*", "terminate", m.c_str());
}

struct RtGuard { bool save; RtGuard() : save(tl_in_rt) { tl_in_rt = true; } ~RtGuard() { tl_in_rt = save; } };
}  // namespace

int self() { return tl_self; }
bool active() { return g_active; }
uint64_t execution_index() { return g_exec_index; }
std::string& current_outcome() { return g_outcome; }
int arg(int i, int dflt) { return i < (int)g_args.size() ? g_args[i] : dflt; }

void register_harness(const HarnessInfo& h) {
  if (!g_harnesses) g_harnesses = new std::vector<HarnessInfo>();
  g_harnesses->push_back(h);
}
const std::vector<HarnessInfo>& harnesses() {
  if (!g_harnesses) g_harnesses = new std::vector<HarnessInfo>();
  return *g_harnesses;
}

static const char* kKind[] = {"load", "store", "rmw", "fence", "lock", "unlock", "spawn", "join", "yield", "choice", "end", "wait", "notify", "kernel", "time"};
static bool g_trace = getenv("VMC_TRACE") != nullptr;
void point(const void* addr, int kind) {
  if (tl_self < 0 || tl_in_rt) return;
  Ign ig; RtGuard rg;
  if (g_trace) std::fprintf(stderr, "[%u] T%d %s %p\n", g_rec->npoints.load(), tl_self, kKind[kind], addr);
  if (++g_steps > g_cfg.max_steps) die("*", "horizon", "execution did not terminate within the step horizon (unbounded loop?)");
  g_rec->steps = g_steps;
  int next = decide(tl_self, true, false);
  switch_to(tl_self, next);
  // read-modify-write, lock, thread and kernel operations are full barriers: the caller's buffered stores drain with them
  if (g_sb_total && kind != K_LOAD && kind != K_STORE && kind != K_FENCE && kind != K_CHOICE) sb_flush(*g_threads[tl_self]);
}

bool tso_active() { return g_cfg.tso && !g_sequential && tl_self >= 0 && !tl_in_rt; }

void tso_drain_self() {
  if (tl_self < 0 || tl_in_rt || !g_sb_total) return;
  Ign ig; RtGuard rg;
  sb_flush(*g_threads[tl_self]);
}

void tso_store(const void* addr, uint64_t old_bits, uint64_t new_bits) {
  if (tl_self < 0 || tl_in_rt) return;
  Ign ig; RtGuard rg;
  T& me = *g_threads[tl_self];
  for (auto& e : me.sb) if (e.addr == addr) { e.written = new_bits; return; }   // still behind the earlier store to addr
  bool delay;
  if (!me.sb.empty()) {
    delay = true;   // the buffer is first-in first-out: a store cannot overtake an earlier buffered one
  } else {
    // explored choice: 0 = visible at once (the sequentially consistent behaviour), 1 = stays in the store buffer until
    // this thread's next barrier (costs one unit of the deviation budget)
    uint32_t pos = g_rec->npoints.load(std::memory_order_relaxed);
    int idx = 0;
    if (pos < g_nprefix) {
      idx = g_prefix[pos];
      if (idx >= 2) die("!", "replay-divergence", "store-buffer choice out of range while replaying a prefix");
    }
    record_point(2, (uint32_t)idx, PF_COSTALL);
    delay = idx == 1;
    if (delay) ++g_cost;
  }
  me.hist = mix(me.hist, 0x7500 + (delay ? 1 : 0));
  if (!delay) return;
  uint64_t lh = 0;
  { auto it = g_lochash.find(addr); if (it != g_lochash.end()) lh = it->second; }
  me.sb.push_back(T::SbEnt{addr, old_bits, lh, new_bits});
  ++g_sb_total;
}

namespace {
T::SbEnt* sb_find(const void* addr, int self, uint64_t mem_bits) {
  for (auto& t : g_threads) {
    if (t->id == self) continue;
    for (size_t i = 0; i < t->sb.size(); ++i) {
      auto& e = t->sb[i];
      if (e.addr != addr) continue;
      if (e.written != mem_bits) {
        // memory no longer holds the buffered store: the object was re-initialised or written by unhooked code; the
        // entry means nothing any more
        t->sb.erase(t->sb.begin() + (long)i); --g_sb_total;
        return nullptr;
      }
      return &e;
    }
  }
  return nullptr;
}
}  // namespace

uint64_t* tso_shadow(const void* addr, uint64_t mem_bits) {
  if (!g_sb_total || tl_self < 0 || tl_in_rt) return nullptr;
  Ign ig; RtGuard rg;
  T::SbEnt* e = sb_find(addr, tl_self, mem_bits);
  return e ? &e->visible : nullptr;
}

static void observed_impl(const void* addr, int kind, uint64_t value, bool wrote, bool shadow) {
  if (tl_self < 0 || tl_in_rt) return;
  Ign ig; RtGuard rg;
  T& me = *g_threads[tl_self];
  if (g_trace) std::fprintf(stderr, "      T%d %s %p -> %llx%s%s\n", tl_self, kKind[kind], addr, (unsigned long long)value, wrote ? " (wrote)" : "", shadow ? " (shadow)" : "");
  uint64_t lh = 0;
  T::SbEnt* se = nullptr;
  if (shadow) {
    // the access was served from / applied to the value that is visible while another thread's store is still buffered
    for (auto& t : g_threads) { if (t->id == tl_self) continue; for (auto& e : t->sb) if (e.addr == addr) se = &e; }
    if (se) lh = se->vis_lochash;
  } else if (addr) { auto it = g_lochash.find(addr); if (it != g_lochash.end()) lh = it->second; }
  me.hist = mix(mix(mix(me.hist, (uint64_t)kind + (shadow ? 0x40 : 0)), lh), value);
  if (wrote) {
    if (se) se->vis_lochash = mix(me.hist, (uint64_t)me.id + 77);
    else if (addr && !shadow) g_lochash[addr] = mix(me.hist, (uint64_t)me.id + 77);
    ++g_write_epoch;
    g_yield_rounds = 0;
    for (auto& t : g_threads) if (t->st == YIELDED) t->st = RUNNABLE;
    me.ring.clear();
    return;
  }
  if (kind == K_FENCE) return;
  if (me.ring_epoch != g_write_epoch) { me.ring.clear(); me.ring_epoch = g_write_epoch; }
  me.ring.push_back({addr, value});
  bool spin = false;
  size_t n = me.ring.size();
  for (size_t p = 1; p <= 3 && !spin; ++p) {
    if (n < 3 * p) continue;
    bool rep = true;
    for (size_t i = 0; i < 2 * p && rep; ++i) rep = me.ring[n - 1 - i] == me.ring[n - 1 - i - p];
    spin = rep;
  }
  if (!spin) return;
  me.ring.clear();
  sb_flush(me);   // a store does not stay buffered for ever: a thread that only spins has drained its buffer
  me.st = YIELDED;
  int next = decide(tl_self, false, true);
  if (next != tl_self) switch_to(tl_self, next);
  me.st = RUNNABLE;
}
void observed(const void* addr, int kind, uint64_t value, bool wrote) { observed_impl(addr, kind, value, wrote, false); }
void observed_shadow(const void* addr, int kind, uint64_t value, bool wrote) { observed_impl(addr, kind, value, wrote, true); }

void yield_now() {
  if (tl_self < 0 || tl_in_rt) return;
  Ign ig; RtGuard rg;
  T& me = *g_threads[tl_self];
  ++g_steps;
  if (g_steps > g_cfg.max_steps) die("*", "horizon", "execution did not terminate within the step horizon (unbounded loop?)");
  me.hist = mix(me.hist, 0x5151);
  sb_flush(me);
  me.st = YIELDED;
  int next = decide(tl_self, false, true);
  if (next != tl_self) switch_to(tl_self, next);
  me.st = RUNNABLE;
}

int spawn(std::function<void()> body) {
  if (tl_self < 0) { std::fprintf(stderr, "vmc: thread created outside an execution\n"); _exit(3); }
  point(nullptr, K_SPAWN);
  Ign ig; RtGuard rg;
  if (g_threads.size() >= 60) die("*", "horizon", "too many threads");
  auto t = std::make_unique<T>();
  t->id = (int)g_threads.size();
  t->body = std::move(body);
  T& me = *g_threads[tl_self];
  me.hist = mix(me.hist, 0xabc);
  t->hist = mix(me.hist, 0xdef + (uint64_t)t->id);
  T* raw = t.get();
  g_threads.push_back(std::move(t));
  start_os_thread(raw);
  return raw->id;
}

void join(int tid) {
  point(nullptr, K_JOIN);
  Ign ig; RtGuard rg;
  T& me = *g_threads[tl_self];
  if (g_threads[tid]->st != FINISHED) {
    me.wk = W_JOIN; me.wtid = tid;
    block_self(me);
  }
  me.hist = mix(me.hist, g_threads[tid]->hist);
}

int choose(int n, const char*) {
  if (n <= 1) return 0;
  Ign ig; RtGuard rg;
  if (!g_rec) return 0;
  uint32_t pos = g_rec->npoints.load(std::memory_order_relaxed);
  int idx = 0;
  if (pos < g_nprefix) {
    idx = g_prefix[pos];
    if (idx >= n) die("!", "replay-divergence", "data choice out of range while replaying a prefix");
  }
  record_point((uint32_t)n, (uint32_t)idx, PF_DATA);
  if (tl_self >= 0) { T& me = *g_threads[tl_self]; me.hist = mix(me.hist, 0x7700 + (uint64_t)idx); }
  return idx;
}

void wait_until(const std::function<bool()>& pred) {
  if (tl_self < 0) { if (!pred()) { std::fprintf(stderr, "vmc: wait_until outside an execution\n"); _exit(3); } return; }
  point(nullptr, K_WAIT);
  Ign ig; RtGuard rg;
  T& me = *g_threads[tl_self];
  if (!pred()) {
    me.wk = W_PRED; me.wpred = &pred;
    block_self(me);
  }
  me.hist = mix(me.hist, 0x9191);
}

void block_until_ready(const std::function<bool()>& ready) {
  if (tl_self < 0 || tl_in_rt) return;
  Ign ig; RtGuard rg;
  T& me = *g_threads[tl_self];
  if (!ready()) {
    me.wk = W_PRED; me.wpred = &ready;
    block_self(me);
  }
}

bool block_until_ready_timed(const std::function<bool()>& ready, long long deadline_ns) {
  if (tl_self < 0 || tl_in_rt) return ready();
  Ign ig; RtGuard rg;
  T& me = *g_threads[tl_self];
  if (!ready() && g_now < deadline_ns) {
    me.wk = W_PRED; me.wpred = &ready; me.timed = deadline_ns != LLONG_MAX; me.deadline = deadline_ns;
    block_self(me);
  }
  return ready();
}

void fail(const char* props, const char* key, const char* msg) { Ign ig; tl_in_rt = true; die(props, key, msg); }
void check(bool cond, const char* props, const char* key, const char* msg) { if (!cond) fail(props, key, msg); }
void note(const char* token) { RtGuard rg; if (g_outcome.size() < 900) { g_outcome += token; g_outcome += ' '; } }
void note(const std::string& token) { note(token.c_str()); }
void expect_terminate(bool on) { g_expect_terminate = on; }

void mutex_lock(Mutex* m, bool recursive) {
  if (tl_self < 0) { m->owner = -2; return; }
  Ign ig; RtGuard rg;
  T& me = *g_threads[tl_self];
  if (recursive && m->owner == tl_self) { ++m->depth; return; }
  if (m->owner != -1) {
    if (m->owner == tl_self) die("*", "deadlock", "self-deadlock: non-recursive mutex locked twice by one thread");
    me.wk = W_MUTEX; me.wm = m;
    block_self(me);
  }
  m->owner = tl_self; m->depth = 1;
  tl_in_rt = false; observed(m, K_LOCK, 0, true); tl_in_rt = true;
}
bool mutex_try_lock(Mutex* m, bool recursive) {
  if (tl_self < 0) { if (m->owner != -1) return false; m->owner = -2; return true; }
  Ign ig; RtGuard rg;
  if (recursive && m->owner == tl_self) { ++m->depth; return true; }
  if (m->owner != -1) { tl_in_rt = false; observed(m, K_LOCK, 1, false); tl_in_rt = true; return false; }
  m->owner = tl_self; m->depth = 1;
  tl_in_rt = false; observed(m, K_LOCK, 0, true); tl_in_rt = true;
  return true;
}
void mutex_unlock(Mutex* m) {
  if (tl_self < 0) { m->owner = -1; return; }
  Ign ig; RtGuard rg;
  if (m->owner != tl_self) die("*", "mutex-misuse", "unlock of a mutex not owned by the caller");
  if (--m->depth > 0) return;
  m->owner = -1;
  tl_in_rt = false; observed(m, K_UNLOCK, 0, true); tl_in_rt = true;
}

void mutex_destroyed(Mutex* m) {
  if (tl_self < 0 || tl_in_rt || !g_active) return;
  Ign ig; RtGuard rg;
  for (auto& t : g_threads)
    if (t->st == BLOCKED && (t->wk == W_MUTEX || t->wk == W_CV) && t->wm == m)
      die("*", "mutex-destroyed-with-waiter", "a mutex was destroyed while another thread is blocked on it (object freed under a concurrent user)");
  if (m->owner >= 0 && m->owner != tl_self)
    die("*", "mutex-destroyed-while-held", "a mutex was destroyed while another thread holds it (object freed under a concurrent user)");
}

static bool cv_wait_impl(CondVar* cv, Mutex* m, bool timed, long long deadline) {
  Ign ig; RtGuard rg;
  T& me = *g_threads[tl_self];
  if (m->owner != tl_self) die("*", "mutex-misuse", "condition_variable wait without owning the mutex");
  m->owner = -1; m->depth = 0;
  tl_in_rt = false; observed(m, K_UNLOCK, 0, true); tl_in_rt = true;
  // spurious wake-up (--spurious): the wait returns without any notification, as the standard allows; explored as a
  // two-way choice costing one unit of the budget. (Returning right away is the strongest form: no notifier has run yet.)
  bool spurious = false;
  if (g_cfg.spurious && !g_sequential) {
    uint32_t pos = g_rec->npoints.load(std::memory_order_relaxed);
    int idx = 0;
    if (pos < g_nprefix) {
      idx = g_prefix[pos];
      if (idx >= 2) die("!", "replay-divergence", "spurious-wake choice out of range while replaying a prefix");
    }
    record_point(2, (uint32_t)idx, PF_COSTALL);
    spurious = idx == 1;
    if (spurious) ++g_cost;
    me.hist = mix(me.hist, 0x5b00 + (spurious ? 1 : 0));
  }
  bool timed_out = false;
  if (spurious) {
    if (m->owner != -1) { me.wk = W_MUTEX; me.wm = m; block_self(me); }
  } else {
    cv->waiters.push_back(tl_self);
    me.wk = W_CV; me.wcv = cv; me.wm = m; me.timed = timed; me.deadline = deadline;
    block_self(me);
    if (in_waiters(cv, tl_self)) {
      timed_out = true;
      cv->waiters.erase(std::find(cv->waiters.begin(), cv->waiters.end(), tl_self));
    }
  }
  m->owner = tl_self; m->depth = 1;
  tl_in_rt = false;
  observed(cv, K_WAIT, timed_out ? 1 : 0, false);
  observed(m, K_LOCK, 0, true);
  tl_in_rt = true;
  me.ring.clear();
  return timed_out;
}
void cv_wait(CondVar* cv, Mutex* m) {
  if (tl_self < 0) { std::fprintf(stderr, "vmc: cv wait outside an execution\n"); _exit(3); }
  cv_wait_impl(cv, m, false, LLONG_MAX);
}
bool cv_wait_until(CondVar* cv, Mutex* m, long long deadline) {
  if (tl_self < 0) { std::fprintf(stderr, "vmc: cv wait outside an execution\n"); _exit(3); }
  return cv_wait_impl(cv, m, true, deadline);
}
void cv_notify(CondVar* cv, bool all) {
  if (tl_self < 0) return;
  Ign ig; RtGuard rg;
  if (cv->waiters.empty()) { tl_in_rt = false; observed(cv, K_NOTIFY, 0, false); tl_in_rt = true; g_threads[tl_self]->ring.clear(); return; }
  if (all) cv->waiters.clear();
  else {
    int k = 0;
    if (cv->waiters.size() > 1) { tl_in_rt = false; k = choose((int)cv->waiters.size(), "notify_one"); tl_in_rt = true; }
    cv->waiters.erase(cv->waiters.begin() + k);
  }
  tl_in_rt = false; observed(cv, K_NOTIFY, 1, true); tl_in_rt = true;
}
void sleep_until_ns(long long deadline) {
  if (tl_self < 0) return;
  point(nullptr, K_TIME);
  Ign ig; RtGuard rg;
  T& me = *g_threads[tl_self];
  if (g_now < deadline) {
    me.wk = W_SLEEP; me.timed = true; me.deadline = deadline;
    block_self(me);
  }
  me.hist = mix(me.hist, (uint64_t)(g_now - kEpoch));
}
void call_once_impl(OnceFlag* f, const std::function<void()>& fn) {
  point(&f->m, K_LOCK);
  mutex_lock(&f->m);
  if (f->state == 0) {
    try { fn(); f->state = 2; } catch (...) { point(&f->m, K_UNLOCK); mutex_unlock(&f->m); throw; }
  }
  point(&f->m, K_UNLOCK);
  mutex_unlock(&f->m);
}

long long now_ns() { return g_now; }
void advance_ns(long long d) {
  if (tl_self < 0) { g_now += d; return; }
  point(nullptr, K_TIME);
  Ign ig; RtGuard rg;
  g_now += d;
  T& me = *g_threads[tl_self];
  me.hist = mix(me.hist, 0x71e + (uint64_t)d);
  ++g_write_epoch;
}

void run_once(const HarnessInfo& h, const uint16_t* prefix, uint32_t nprefix) {
  static bool handler_set = false;
  if (!handler_set) { std::set_terminate(terminate_handler); handler_set = true; }
  g_now = kEpoch;
  g_prefix = prefix; g_nprefix = nprefix;
  g_threads.clear();
  g_steps = 0; g_write_epoch = 0; g_sb_total = 0; g_lochash.clear(); g_yield_rounds = 0; g_cost = 0;
  g_expect_terminate = false;
  g_outcome.clear();
  ++g_exec_index;
  g_rec->npoints.store(0, std::memory_order_relaxed);
  g_rec->prune_pos = -1;
  g_rec->prefix_len = nprefix;
  g_rec->status = RS_RUNNING;
  g_rec->steps = 0;
  g_rec->bound = g_cfg.bound;
  g_rec->props[0] = g_rec->key[0] = g_rec->msg[0] = g_rec->outcome[0] = 0;
  g_active = true;
  g_sequential = h.sequential;
  if (h.sequential) {
    h.body();
  } else {
    auto t = std::make_unique<T>();
    t->id = 0; t->body = h.body;
    T* raw = t.get();
    g_threads.push_back(std::move(t));
    start_os_thread(raw);
    fwake(&raw->go);
    fwait(&g_ctl_go);
    wait_all_os_idle();
  }
  g_active = false;
  if (g_rec->npoints.load(std::memory_order_relaxed) < nprefix) {
    tl_in_rt = true;
    die("!", "replay-divergence", "execution ended before the replayed prefix was consumed");
  }
  g_rec->steps = g_steps;
  std::snprintf(g_rec->outcome, sizeof g_rec->outcome, "%s", g_outcome.c_str());
  g_rec->status = RS_DONE;
  g_rec->heartbeat.fetch_add(1, std::memory_order_relaxed);
}
}  // namespace vmcrt
