// vmc prelude: force-included (-include) in front of every library and harness translation unit of a
// verification build. It first pulls in every standard header the library or the harnesses use (so later
// #includes are no-ops), defines vmc:: replacements for the std synchronisation vocabulary, aliases them
// into namespace std under vmc_* names and finally renames the std identifiers by macro. No file under
// /repo is modified. Written in C++17 so that the same sources build in every configuration of C20.
#pragma once
#include <algorithm>
#include <any>
#include <array>
#include <atomic>
#include <cassert>
#include <chrono>
#include <climits>
#include <condition_variable>
#include <cstddef>
#include <cstdint>
#include <cstdio>
#include <cstdlib>
#include <cstring>
#include <deque>
#include <exception>
#include <functional>
#include <future>
#include <iostream>
#include <iterator>
#include <limits>
#include <list>
#include <map>
#include <memory>
#include <memory_resource>
#include <mutex>
#include <new>
#include <numeric>
#include <optional>
#include <queue>
#include <random>
#include <ratio>
#include <set>
#include <shared_mutex>
#include <sstream>
#include <stdexcept>
#include <string>
#include <string_view>
#include <system_error>
#include <thread>
#include <tuple>
#include <type_traits>
#include <typeindex>
#include <typeinfo>
#include <unordered_map>
#include <unordered_set>
#include <utility>
#include <variant>
#include <vector>
#if __has_include(<version>)
#include <version>
#endif
#if __cplusplus > 201703L
#if __has_include(<coroutine>)
#include <coroutine>
#endif
#if __has_include(<span>)
#include <span>
#endif
#if __has_include(<concepts>)
#include <concepts>
#endif
#endif
#include <signal.h>
#include <time.h>
#include <unistd.h>
#include <sys/mman.h>
#include <sys/epoll.h>
#include <sys/eventfd.h>
#include <sys/timerfd.h>
#include <sys/uio.h>
#include <sys/socket.h>
#include <sys/stat.h>
#include <sys/types.h>
#include <fcntl.h>
#include <poll.h>

#include "vmc_rt.hpp"

#if defined(__SANITIZE_THREAD__)
#define VMC_TSAN 1
#elif defined(__has_feature)
#if __has_feature(thread_sanitizer)
#define VMC_TSAN 1
#endif
#endif
#if defined(VMC_TSAN)
extern "C" void __tsan_acquire(void*);
extern "C" void __tsan_release(void*);
#define VMC_TSAN_ACQ(p) __tsan_acquire((void*)(p))
#define VMC_TSAN_REL(p) __tsan_release((void*)(p))
#else
#define VMC_TSAN_ACQ(p) ((void)0)
#define VMC_TSAN_REL(p) ((void)0)
#endif
#define VMC_EXEC_BEGIN() VMC_TSAN_ACQ(&::vmc::g_exec_tok)
#define VMC_EXEC_END() VMC_TSAN_REL(&::vmc::g_exec_tok)

namespace vmc {
inline char g_thread_tok[256];
inline char g_thread_start_tok[256];
inline char g_exec_tok;   // orders one execution's threads before the next execution's main thread (ThreadSanitizer flavour)
template <class T>
inline uint64_t tohash(const T& v) noexcept {
  uint64_t r = 0;
  std::memcpy(&r, &v, sizeof(T) < 8 ? sizeof(T) : 8);
  return r;
}

// Same layout as std::atomic<T>; every operation announces a scheduling point, then performs the real
// operation with the real memory order.
template <class T>
struct atomic {
  std::atomic<T> v_;
  atomic() noexcept = default;
  constexpr atomic(T t) noexcept : v_(t) {}
  atomic(const atomic&) = delete;
  atomic& operator=(const atomic&) = delete;
  static constexpr bool is_always_lock_free = std::atomic<T>::is_always_lock_free;
  bool is_lock_free() const noexcept { return v_.is_lock_free(); }
  // store-buffer mode (vmcrt::tso_active()): while another thread's store to this object is still buffered, everybody
  // else reads, and orders its own writes before, the value that was visible before it (the "shadow")
  static constexpr bool tso_ok = sizeof(T) <= 8 && std::is_trivially_copyable<T>::value;
  static T frombits(uint64_t b) noexcept { T r; std::memcpy(&r, &b, sizeof(T) < 8 ? sizeof(T) : 8); return r; }
  uint64_t* shadow_() const noexcept {
    if (!tso_ok || !vmcrt::tso_active()) return nullptr;
    return vmcrt::tso_shadow(this, tohash(v_.load(std::memory_order_relaxed)));
  }
  T load(std::memory_order o = std::memory_order_seq_cst) const noexcept {
    vmcrt::point(this, vmcrt::K_LOAD);
    if (uint64_t* sh = shadow_()) {
      T r = frombits(*sh);
      vmcrt::observed_shadow(this, vmcrt::K_LOAD, tohash(r), false);
      return r;
    }
    T r = v_.load(o);
    vmcrt::observed(this, vmcrt::K_LOAD, tohash(r), false);
    return r;
  }
  void store(T t, std::memory_order o = std::memory_order_seq_cst) noexcept {
    vmcrt::point(this, vmcrt::K_STORE);
    if (tso_ok && vmcrt::tso_active()) {
      if (uint64_t* sh = shadow_()) {
        // ordered before the other thread's buffered store in modification order: visible now, overwritten when it drains
        vmcrt::tso_drain_self();
        *sh = tohash(t);
        vmcrt::observed_shadow(this, vmcrt::K_STORE, tohash(t), true);
        return;
      }
      if (o == std::memory_order_seq_cst) vmcrt::tso_drain_self();
      else vmcrt::tso_store(this, tohash(v_.load(std::memory_order_relaxed)), tohash(t));
    }
    v_.store(t, o);
    vmcrt::observed(this, vmcrt::K_STORE, tohash(t), true);
  }
  T exchange(T t, std::memory_order o = std::memory_order_seq_cst) noexcept {
    vmcrt::point(this, vmcrt::K_RMW);
    if (uint64_t* sh = shadow_()) {
      T r = frombits(*sh);
      *sh = tohash(t);
      vmcrt::observed_shadow(this, vmcrt::K_RMW, tohash(r), tohash(r) != tohash(t));
      return r;
    }
    T r = v_.exchange(t, o);
    vmcrt::observed(this, vmcrt::K_RMW, tohash(r), tohash(r) != tohash(t));
    return r;
  }
  bool cas_(T& e, T d, std::memory_order s, std::memory_order f) noexcept {
    vmcrt::point(this, vmcrt::K_RMW);
    if (uint64_t* sh = shadow_()) {
      bool ok = *sh == tohash(e);
      if (ok) *sh = tohash(d); else e = frombits(*sh);
      vmcrt::observed_shadow(this, vmcrt::K_RMW, tohash(e) * 2 + (ok ? 1 : 0), ok);
      return ok;
    }
    bool ok = v_.compare_exchange_strong(e, d, s, f);
    vmcrt::observed(this, vmcrt::K_RMW, tohash(e) * 2 + (ok ? 1 : 0), ok);
    return ok;
  }
  static constexpr std::memory_order fo_(std::memory_order o) {
    return o == std::memory_order_acq_rel ? std::memory_order_acquire : o == std::memory_order_release ? std::memory_order_relaxed : o;
  }
  bool compare_exchange_strong(T& e, T d, std::memory_order s, std::memory_order f) noexcept { return cas_(e, d, s, f); }
  bool compare_exchange_strong(T& e, T d, std::memory_order o = std::memory_order_seq_cst) noexcept { return cas_(e, d, o, fo_(o)); }
  bool compare_exchange_weak(T& e, T d, std::memory_order s, std::memory_order f) noexcept { return cas_(e, d, s, f); }
  bool compare_exchange_weak(T& e, T d, std::memory_order o = std::memory_order_seq_cst) noexcept { return cas_(e, d, o, fo_(o)); }
#define VMC_FETCH(NAME, CHANGED, NEWVAL)                                                 \
  template <class U = T>                                                                 \
  auto NAME(U x, std::memory_order o = std::memory_order_seq_cst) noexcept {             \
    vmcrt::point(this, vmcrt::K_RMW);                                                    \
    if (uint64_t* sh = shadow_()) {                                                      \
      T r = frombits(*sh);                                                               \
      *sh = tohash(T(NEWVAL));                                                           \
      vmcrt::observed_shadow(this, vmcrt::K_RMW, tohash(r), CHANGED);                    \
      return r;                                                                          \
    }                                                                                    \
    T r = v_.NAME(x, o);                                                                 \
    vmcrt::observed(this, vmcrt::K_RMW, tohash(r), CHANGED);                             \
    return r;                                                                            \
  }
  VMC_FETCH(fetch_add, x != U{}, r + x)
  VMC_FETCH(fetch_sub, x != U{}, r - x)
  VMC_FETCH(fetch_or, T(r | x) != r, r | x)
  VMC_FETCH(fetch_and, T(r & x) != r, r & x)
  VMC_FETCH(fetch_xor, x != U{}, r ^ x)
#undef VMC_FETCH
  operator T() const noexcept { return load(); }
  T operator=(T t) noexcept { store(t); return t; }
  T operator++() noexcept { return fetch_add(1) + 1; }
  T operator--() noexcept { return fetch_sub(1) - 1; }
  T operator++(int) noexcept { return fetch_add(1); }
  T operator--(int) noexcept { return fetch_sub(1); }
  T operator+=(T x) noexcept { return fetch_add(x) + x; }
  T operator-=(T x) noexcept { return fetch_sub(x) - x; }
  T operator|=(T x) noexcept { return fetch_or(x) | x; }
  T operator&=(T x) noexcept { return fetch_and(x) & x; }
};

inline void fence(std::memory_order o) noexcept {
  vmcrt::point(nullptr, vmcrt::K_FENCE);
  if (o == std::memory_order_seq_cst) vmcrt::tso_drain_self();
  std::atomic_thread_fence(o);
  vmcrt::observed(nullptr, vmcrt::K_FENCE, (uint64_t)o, false);
}

// the runtime is not sanitizer-instrumented: touch the object from instrumented code first so that a lock
// operation on a destroyed/freed mutex or condition variable is reported by ASan
#if defined(VMC_TSAN)
template <class X>
inline void vmc_touch(X*) noexcept {}   // (the touch is an unsynchronised write: not under ThreadSanitizer)
#else
template <class X>
inline void vmc_touch(X* p) noexcept { volatile char* c = reinterpret_cast<volatile char*>(p); *c = *c; }
#endif
struct mutex {
  vmcrt::Mutex m_;
  mutex() = default;
  mutex(const mutex&) = delete;
  ~mutex() { vmcrt::mutex_destroyed(&m_); }
  void lock() { vmcrt::point(&m_, vmcrt::K_LOCK); vmc_touch(&m_); vmcrt::mutex_lock(&m_); VMC_TSAN_ACQ(&m_); }
  bool try_lock() { vmcrt::point(&m_, vmcrt::K_LOCK); vmc_touch(&m_); bool ok = vmcrt::mutex_try_lock(&m_); if (ok) VMC_TSAN_ACQ(&m_); return ok; }
  void unlock() { vmcrt::point(&m_, vmcrt::K_UNLOCK); vmc_touch(&m_); VMC_TSAN_REL(&m_); vmcrt::mutex_unlock(&m_); }
};
struct recursive_mutex {
  vmcrt::Mutex m_;
  recursive_mutex() = default;
  recursive_mutex(const recursive_mutex&) = delete;
  ~recursive_mutex() { vmcrt::mutex_destroyed(&m_); }
  void lock() { vmcrt::point(&m_, vmcrt::K_LOCK); vmc_touch(&m_); vmcrt::mutex_lock(&m_, true); VMC_TSAN_ACQ(&m_); }
  bool try_lock() { vmcrt::point(&m_, vmcrt::K_LOCK); vmc_touch(&m_); bool ok = vmcrt::mutex_try_lock(&m_, true); if (ok) VMC_TSAN_ACQ(&m_); return ok; }
  void unlock() { vmcrt::point(&m_, vmcrt::K_UNLOCK); vmc_touch(&m_); VMC_TSAN_REL(&m_); vmcrt::mutex_unlock(&m_); }
};
inline vmcrt::Mutex* vmc_raw(std::unique_lock<mutex>& lk) { return &lk.mutex()->m_; }

struct clock {
  using duration = std::chrono::nanoseconds;
  using rep = duration::rep;
  using period = duration::period;
  using time_point = std::chrono::time_point<clock, duration>;
  static constexpr bool is_steady = true;
  static time_point now() noexcept { return time_point(duration(vmcrt::now_ns())); }
};

struct condition_variable {
  vmcrt::CondVar c_;
  condition_variable() = default;
  condition_variable(const condition_variable&) = delete;
  void notify_one() noexcept { vmcrt::point(&c_, vmcrt::K_NOTIFY); vmc_touch(&c_); vmcrt::cv_notify(&c_, false); }
  void notify_all() noexcept { vmcrt::point(&c_, vmcrt::K_NOTIFY); vmc_touch(&c_); vmcrt::cv_notify(&c_, true); }
  void wait(std::unique_lock<mutex>& lk) {
    vmcrt::point(&c_, vmcrt::K_WAIT);
    vmc_touch(&c_); vmc_touch(vmc_raw(lk));
    VMC_TSAN_REL(vmc_raw(lk));
    vmcrt::cv_wait(&c_, vmc_raw(lk));
    VMC_TSAN_ACQ(vmc_raw(lk));
  }
  template <class P>
  void wait(std::unique_lock<mutex>& lk, P p) { while (!p()) wait(lk); }
  template <class C, class D>
  std::cv_status wait_until(std::unique_lock<mutex>& lk, const std::chrono::time_point<C, D>& tp) {
    static_assert(std::is_same<C, clock>::value, "vmc: only the virtual steady clock is supported in timed waits");
    long long dl = std::chrono::duration_cast<std::chrono::nanoseconds>(tp.time_since_epoch()).count();
    vmcrt::point(&c_, vmcrt::K_WAIT);
    vmc_touch(&c_); vmc_touch(vmc_raw(lk));
    VMC_TSAN_REL(vmc_raw(lk));
    bool to = vmcrt::cv_wait_until(&c_, vmc_raw(lk), dl);
    VMC_TSAN_ACQ(vmc_raw(lk));
    return to ? std::cv_status::timeout : std::cv_status::no_timeout;
  }
  template <class C, class D, class P>
  bool wait_until(std::unique_lock<mutex>& lk, const std::chrono::time_point<C, D>& tp, P p) {
    while (!p()) if (wait_until(lk, tp) == std::cv_status::timeout) return p();
    return true;
  }
  template <class R, class Pd>
  std::cv_status wait_for(std::unique_lock<mutex>& lk, const std::chrono::duration<R, Pd>& d) {
    return wait_until(lk, clock::now() + std::chrono::duration_cast<std::chrono::nanoseconds>(d));
  }
};

struct thread {
  struct id {
    int v = -1;
    friend bool operator==(id a, id b) noexcept { return a.v == b.v; }
    friend bool operator!=(id a, id b) noexcept { return a.v != b.v; }
    friend bool operator<(id a, id b) noexcept { return a.v < b.v; }
    template <class Os> friend Os& operator<<(Os& os, id i) { os << "T" << i.v; return os; }
  };
  thread() noexcept = default;
  template <class F, class... A, class = std::enable_if_t<!std::is_same<std::decay_t<F>, thread>::value>>
  explicit thread(F&& f, A&&... a) {
    auto tup = std::make_shared<std::tuple<std::decay_t<F>, std::decay_t<A>...>>(std::forward<F>(f), std::forward<A>(a)...);
    h_ = vmcrt::spawn(std::function<void()>([tup]() mutable {
      VMC_TSAN_ACQ(&g_thread_start_tok[vmcrt::self() & 255]);
      std::apply([](auto&& fn, auto&&... args) { std::invoke(std::move(fn), std::move(args)...); }, std::move(*tup));
      VMC_TSAN_REL(&g_thread_tok[vmcrt::self() & 255]);
      VMC_TSAN_REL(&g_exec_tok);
    }));
    // (the child cannot run before the parent's next scheduling point, so this release precedes the child's acquire)
    VMC_TSAN_REL(&g_thread_start_tok[h_ & 255]);
  }
  thread(thread&& o) noexcept : h_(std::exchange(o.h_, -1)) {}
  thread& operator=(thread&& o) noexcept {
    if (joinable()) std::terminate();
    h_ = std::exchange(o.h_, -1);
    return *this;
  }
  ~thread() { if (joinable()) std::terminate(); }
  bool joinable() const noexcept { return h_ >= 0; }
  void join() {
    vmcrt::join(h_);
    VMC_TSAN_ACQ(&g_thread_tok[h_ & 255]);
    h_ = -1;
  }
  id get_id() const noexcept { return id{h_}; }
  void swap(thread& o) noexcept { std::swap(h_, o.h_); }
  static unsigned hardware_concurrency() noexcept { return 2; }
  int h_ = -1;
};

namespace this_thread {
inline thread::id get_id() noexcept { return thread::id{vmcrt::self()}; }
inline void yield() noexcept { vmcrt::yield_now(); }
template <class C, class D>
inline void sleep_until(const std::chrono::time_point<C, D>& tp) {
  static_assert(std::is_same<C, clock>::value, "vmc: only the virtual steady clock is supported in sleeps");
  vmcrt::sleep_until_ns(std::chrono::duration_cast<std::chrono::nanoseconds>(tp.time_since_epoch()).count());
}
template <class R, class P>
inline void sleep_for(const std::chrono::duration<R, P>& d) {
  vmcrt::sleep_until_ns(vmcrt::now_ns() + std::chrono::duration_cast<std::chrono::nanoseconds>(d).count());
}
}  // namespace this_thread

struct once_flag {
  vmcrt::OnceFlag f_;
  once_flag() = default;
  once_flag(const once_flag&) = delete;
};
template <class F, class... A>
inline void call_once(once_flag& f, F&& fn, A&&... a) {
  vmcrt::call_once_impl(&f.f_, [&] { std::invoke(std::forward<F>(fn), std::forward<A>(a)...); });
}

// ---- harness-facing helpers (same names as in DESIGN.md appendix A) ----
inline int choose(int n, const char* label = nullptr) { return vmcrt::choose(n, label); }
inline void check(bool c, const char* props, const char* key, const char* msg) { vmcrt::check(c, props, key, msg); }
inline void check(bool c, const char* props, const char* key, const std::string& msg) { if (!c) vmcrt::fail(props, key, msg.c_str()); }
inline void note(const std::string& s) { vmcrt::note(s); }
// ThreadSanitizer flavour: a harness that observes a completion through its (uninstrumented) monitor variables and then
// acts on the library object synchronises with the completion signal, as any real consumer does (future.get(), a
// condition variable ...): receivers call publish() when they record a signal, wait_until() acquires when it returns.
inline char g_wait_tok;
inline void publish() { VMC_TSAN_REL(&g_wait_tok); }
template <class P>
inline void wait_until(P p) { std::function<bool()> f(p); vmcrt::wait_until(f); VMC_TSAN_ACQ(&g_wait_tok); }
inline long long now() { return vmcrt::now_ns(); }
inline void advance(std::chrono::nanoseconds d) { vmcrt::advance_ns(d.count()); }
inline int self() { return vmcrt::self(); }
}  // namespace vmc

namespace std {
template <class T> using vmc_atomic = ::vmc::atomic<T>;
using vmc_atomic_uintptr_t = ::vmc::atomic<uintptr_t>;
using vmc_atomic_char = ::vmc::atomic<char>;
using vmc_atomic_bool = ::vmc::atomic<bool>;
using vmc_atomic_int = ::vmc::atomic<int>;
using vmc_atomic_size_t = ::vmc::atomic<size_t>;
inline void vmc_atomic_thread_fence(std::memory_order o) noexcept { ::vmc::fence(o); }
using vmc_mutex = ::vmc::mutex;
using vmc_recursive_mutex = ::vmc::recursive_mutex;
using vmc_condition_variable = ::vmc::condition_variable;
using vmc_thread = ::vmc::thread;
using vmc_once_flag = ::vmc::once_flag;
template <class F, class... A>
inline void vmc_call_once(::vmc::once_flag& f, F&& fn, A&&... a) { ::vmc::call_once(f, std::forward<F>(fn), std::forward<A>(a)...); }
namespace vmc_this_thread = ::vmc::this_thread;
namespace chrono { using vmc_steady_clock = ::vmc::clock; }
}  // namespace std

#define atomic vmc_atomic
#define atomic_uintptr_t vmc_atomic_uintptr_t
#define atomic_char vmc_atomic_char
#define atomic_bool vmc_atomic_bool
#define atomic_int vmc_atomic_int
#define atomic_size_t vmc_atomic_size_t
#define atomic_thread_fence vmc_atomic_thread_fence
#define mutex vmc_mutex
#define recursive_mutex vmc_recursive_mutex
#define condition_variable vmc_condition_variable
#define thread vmc_thread
#define this_thread vmc_this_thread
#define steady_clock vmc_steady_clock
#define once_flag vmc_once_flag
#define call_once vmc_call_once
