// internal interface between the scheduler runtime (vmc_rt.cpp) and the explorer (vmc_explore.cpp)
#pragma once
#include "vmc_rt.hpp"
#include <atomic>
#include <cstdint>

namespace vmcrt {
struct PointRec {
  uint16_t n;       // number of alternatives
  uint16_t chosen;  // alternative taken
  uint8_t flags;    // PF_*
  uint8_t pad[3];
};
enum : uint8_t {
  PF_PREEMPT = 1,   // alternative != 0 switches away from a thread that could continue: costs 1
  PF_LASTCOST = 2,  // the last alternative (continue a yielding thread) costs 1
  PF_DATA = 4,      // data choice (free)
  PF_COSTALL = 8    // every alternative other than 0 costs 1 (store-buffer mode: delay this store)
};
constexpr uint32_t MAXPTS = 1u << 18;
enum : int32_t { RS_IDLE = 0, RS_RUNNING = 1, RS_DONE = 2, RS_FAILED = 3, RS_EXPECTED_TERMINATE = 4 };

// one per worker slot, in MAP_SHARED memory so the parent can read it after the worker died
struct ExecRec {
  std::atomic<uint32_t> npoints;
  int32_t prune_pos;     // first position that must not be expanded (-1 = none)
  uint32_t prefix_len;
  uint32_t floor;
  int32_t status;
  int32_t bound;
  uint64_t steps;        // scheduling points executed in this execution
  // cumulative per-task counters (reset by the worker when it takes a task)
  std::atomic<uint64_t> t_execs, t_steps, t_pruned;
  std::atomic<uint64_t> heartbeat;
  char props[64];
  char key[160];
  char msg[2048];
  char outcome[1024];
  PointRec pts[MAXPTS];
};

struct RunConfig {
  int bound = 2;
  bool use_cache = true;
  uint64_t max_steps = 200000;
  bool spurious = false; // a condition_variable wait may return without a notification (one unit of budget)
  bool tso = false;     // store-buffer mode: a non-seq_cst store may stay invisible to other threads (one unit of budget)
};

// shared HB-prefix cache
struct CacheEnt { std::atomic<uint64_t> k1; std::atomic<uint64_t> v; };
struct SharedCtl {
  std::atomic<uint64_t> states;
  std::atomic<uint32_t> stop;       // parent asks workers to stop after the current execution
  std::atomic<uint32_t> cache_full;
  std::atomic<uint32_t> hungry;     // parent's queue is short: workers should donate subtrees
  uint64_t cache_mask;
};
extern ExecRec* g_rec;
extern SharedCtl* g_ctl;
extern CacheEnt* g_cache;
extern RunConfig g_cfg;
extern std::vector<int> g_args;

// run exactly one execution of h with the given choice prefix (defaults afterwards); fills *g_rec
void run_once(const HarnessInfo& h, const uint16_t* prefix, uint32_t nprefix);
const std::vector<HarnessInfo>& harnesses();
std::string& current_outcome();
}  // namespace vmcrt
