// kit: completion records and self-freeing heap operations for the I/O context harnesses (C14)
#pragma once
#include <ksim.hpp>
#include <unifex/get_stop_token.hpp>
#include <unifex/inplace_stop_token.hpp>
#include <unifex/receiver_concepts.hpp>
#include <unifex/sender_concepts.hpp>
#include <cstring>
#include <memory>
#include <string>
#include <system_error>
#include <vector>

namespace iokit {
using namespace unifex;
struct Done {
  int count = 0; char how = '?'; long n = -1; int ec = 0; int thread = -2; long long when = 0;
  std::string str() const { return std::string(1, how) + (how == 'V' ? std::to_string(n) : how == 'E' ? std::to_string(ec) : ""); }
};
// completion record + self-freeing heap operation
struct Ctl {
  static inline bool (*stale)(const void*, size_t) = nullptr;   // does the simulated kernel still reference [p, p+n)?
  Done d;
  void* op = nullptr; size_t op_size = 0; void (*del)(void*) = nullptr;
  std::unique_ptr<std::byte[]> buf; size_t buf_size = 0;
  std::vector<unsigned char> got;    // bytes a read delivered (copied out before the buffer is freed)
  bool signalling = false;
  void signal(char h, long n, int ec) {
    if (d.count > 0 || signalling) vmcrt::fail("C14,C01", "completed-twice", "an I/O context operation completed more than once");
    signalling = true;
    d.how = h; d.n = n; d.ec = ec; d.thread = vmc::self(); d.when = vmcrt::now_ns();
    if (h == 'V' && buf && n > 0 && (size_t)n <= buf_size) got.assign((unsigned char*)buf.get(), (unsigned char*)buf.get() + n);
    // the operation and its buffer die here: nobody may touch them afterwards
    if (op && stale && stale(op, op_size))
      vmcrt::fail("C14", "stale-registration", "the kernel still holds a pointer into the operation (epoll registration / pending io_uring request) at the time it completes");
    if (buf && stale && stale(buf.get(), buf_size))
      vmcrt::fail("C14", "stale-registration", "the kernel still holds a pointer to the operation's buffer at the time it completes");
    if (del) { auto dl = del; del = nullptr; dl(op); }
    buf.reset();
    // published last: whoever waits for count > 0 sees everything above (and synchronises with it under ThreadSanitizer)
    VMC_TSAN_REL(&::vmc::g_wait_tok);
    ++d.count;
  }
};
template <class Token = inplace_stop_token>
struct IoRcv {
  Ctl* c; Token tok{};
  // destructive move: a moved-from receiver must never be completed or queried
  struct Mv { bool moved = false; Mv() = default; Mv(const Mv&) = default; Mv& operator=(const Mv&) = default;
              Mv(Mv&& o) noexcept : moved(o.moved) { o.moved = true; } Mv& operator=(Mv&& o) noexcept { moved = o.moved; if (&o != this) o.moved = true; return *this; }
              void use(const char* w) const { if (moved) vmcrt::fail("C02,C12,C14", "moved-from-receiver", (std::string("a receiver was used after it had been moved from: ") + w).c_str()); } } g{};
  void set_value() noexcept { g.use("set_value"); c->signal('V', 0, 0); }
  void set_value(ssize_t n) noexcept { g.use("set_value"); c->signal('V', (long)n, 0); }
  void set_error(std::error_code e) noexcept { g.use("set_error"); c->signal('E', -1, e.value()); }
  void set_error(std::exception_ptr) noexcept { g.use("set_error"); c->signal('E', -1, -2); }
  void set_done() noexcept { g.use("set_done"); c->signal('D', -1, 0); }
  friend Token tag_invoke(tag_t<get_stop_token>, const IoRcv& r) noexcept { r.g.use("get_stop_token"); return r.tok; }
};
template <class S, class R>
struct Heap { connect_result_t<S, R> op; Heap(S&& s, R&& r) : op(unifex::connect((S&&)s, (R&&)r)) {} };
template <class S, class R>
auto& heap_connect(Ctl& c, S&& s, R&& r) {
  using H = Heap<S, R>;
  auto* h = new H((S&&)s, (R&&)r);
  c.op = h; c.op_size = sizeof(H); c.del = [](void* p) { delete static_cast<H*>(p); };
  return h->op;
}

}  // namespace iokit
