// every harness executable: include this once per TU; the TU named in targets.py as first source
// defines main() via VMC_DEFINE_MAIN.
#pragma once
#include <vmc_rt.hpp>
#ifndef VMC_NO_MAIN
int main(int argc, char** argv) __attribute__((weak));
int main(int argc, char** argv) { return vmcrt::main_driver(argc, argv); }
#endif
