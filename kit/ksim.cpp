// ksim — simulated kernel objects behind --wrap seams (see ksim.hpp)
#include "ksim_int.hpp"

#include <cerrno>
#include <climits>
#include <cstring>
#include <deque>
#include <fcntl.h>
#include <sys/epoll.h>
#include <sys/eventfd.h>
#include <sys/timerfd.h>
#include <sys/uio.h>
#include <time.h>
#include <unistd.h>

extern "C" {
int __real_epoll_create(int);
int __real_epoll_create1(int);
int __real_epoll_ctl(int, int, int, struct epoll_event*);
int __real_epoll_wait(int, struct epoll_event*, int, int);
int __real_eventfd(unsigned, int);
int __real_timerfd_create(int, int);
int __real_timerfd_settime(int, int, const struct itimerspec*, struct itimerspec*);
ssize_t __real_read(int, void*, size_t);
ssize_t __real_write(int, const void*, size_t);
ssize_t __real_readv(int, const struct iovec*, int);
ssize_t __real_writev(int, const struct iovec*, int);
int __real_close(int);
int __real_pipe2(int*, int);
int __real_clock_gettime(clockid_t, struct timespec*);
}

namespace ksim {
namespace detail {
Obj g_tab[NFD];
Pipe g_pipes[NPIPE];
Config g_cfg;
bool g_active = false;
void (*on_state_change)() = nullptr;
bool (*close_hook)(int fd, Obj& o) = nullptr;
long (*rw_hook)(Obj& o, const struct iovec* iov, int cnt, bool write) = nullptr;
}  // namespace detail
using namespace detail;
namespace {
int g_calls[C_NCALLS];
int g_npipes = 0;
int g_ever_opened = 0;
std::string g_double_close;
}  // namespace
namespace detail {
bool in_exec() { return g_active; }
Obj* obj(int fd) {
  if (fd < BASE || fd >= BASE + NFD) return nullptr;
  Obj* o = &g_tab[fd - BASE];
  return o->kind == FREE ? nullptr : o;
}
int alloc(int kind) {
  for (int i = 0; i < NFD; ++i)
    if (g_tab[i].kind == FREE) {
      int opened = g_tab[i].opened, closed = g_tab[i].closed;
      g_tab[i] = Obj{}; g_tab[i].kind = kind; g_tab[i].opened = opened + 1; g_tab[i].closed = closed;
      ++g_ever_opened;
      return BASE + i;
    }
  vmcrt::fail("!", "harness", "ksim: descriptor table full");
}
bool fault(int call) {
  int n = g_calls[call]++;
  if (g_cfg.fault_call == call && (n == g_cfg.fault_nth || (g_cfg.fault_sticky && n >= g_cfg.fault_nth))) { errno = g_cfg.fault_errno; return true; }
  return false;
}
bool is_short(int call) { return g_cfg.short_call == call && g_calls[call] - 1 == g_cfg.short_nth; }

uint32_t readiness(const Obj& o) {
  switch (o.kind) {
    case EVENTFD: return o.counter > 0 ? EPOLLIN : 0;
    case TIMERFD: return (o.armed && vmcrt::now_ns() >= o.due) ? EPOLLIN : 0;
    case PIPE_R: { const Pipe& p = g_pipes[o.pipe]; return (p.buf.empty() ? 0 : EPOLLIN) | (p.w_open ? 0 : EPOLLHUP); }
    case PIPE_W: { const Pipe& p = g_pipes[o.pipe]; return ((int)p.buf.size() < p.cap ? EPOLLOUT : 0) | (p.r_open ? 0 : EPOLLERR); }
    default: return 0;
  }
}
uint32_t reported(const Reg& r) {
  Obj* o = obj(r.fd);
  if (!o) return 0;
  return readiness(*o) & (r.events | EPOLLHUP | EPOLLERR);
}
int count_ready(const Obj& ep) { int n = 0; for (auto& r : ep.regs) if (reported(r)) ++n; return n; }

long pipe_read(Obj& o, const struct iovec* iov, int cnt, int call) {
  Pipe& p = g_pipes[o.pipe];
  step(&p);
  if (fault(call)) { wrote(&p, 0xE0 + errno); return -1; }
  size_t want = 0; for (int i = 0; i < cnt; ++i) want += iov[i].iov_len;
  if (p.buf.empty()) {
    if (!p.w_open || want == 0) { wrote(&p, 0xF0); return 0; }
    if (o.nonblock) { errno = EAGAIN; wrote(&p, 0xF1); return -1; }
    vmcrt::block_until_ready([&] { return !p.buf.empty() || !p.w_open; });
    if (p.buf.empty()) { wrote(&p, 0xF0); return 0; }
  }
  size_t n = std::min(want, p.buf.size());
  if (is_short(call) && n > 1) n = 1;
  size_t done = 0;
  for (int i = 0; i < cnt && done < n; ++i) {
    size_t k = std::min(iov[i].iov_len, n - done);
    for (size_t j = 0; j < k; ++j) { static_cast<unsigned char*>(iov[i].iov_base)[j] = p.buf.front(); p.buf.pop_front(); }
    done += k;
  }
  wrote(&p, 0x100 + done);
  if (on_state_change) on_state_change();
  return (long)done;
}
long pipe_write(Obj& o, const struct iovec* iov, int cnt, int call) {
  Pipe& p = g_pipes[o.pipe];
  step(&p);
  if (fault(call)) { wrote(&p, 0xE0 + errno); return -1; }
  size_t want = 0; for (int i = 0; i < cnt; ++i) want += iov[i].iov_len;
  if (!p.r_open) { errno = EPIPE; wrote(&p, 0xF2); return -1; }
  if (want == 0) { wrote(&p, 0xF3); return 0; }
  size_t space = (size_t)p.cap - p.buf.size();
  if (space == 0) {
    if (o.nonblock) { errno = EAGAIN; wrote(&p, 0xF4); return -1; }
    vmcrt::block_until_ready([&] { return (int)p.buf.size() < p.cap || !p.r_open; });
    if (!p.r_open) { errno = EPIPE; wrote(&p, 0xF2); return -1; }
    space = (size_t)p.cap - p.buf.size();
  }
  size_t n = std::min(want, space);
  if (is_short(call) && n > 1) n = 1;
  size_t done = 0;
  for (int i = 0; i < cnt && done < n; ++i) {
    size_t k = std::min(iov[i].iov_len, n - done);
    for (size_t j = 0; j < k; ++j) p.buf.push_back(static_cast<const unsigned char*>(iov[i].iov_base)[j]);
    done += k;
  }
  wrote(&p, 0x200 + done);
  if (on_state_change) on_state_change();
  return (long)done;
}

long do_readv(int fd, const struct iovec* iov, int cnt, int call) {
  KIgn kign;
  Obj* o = obj(fd);
  if (!o) { errno = EBADF; return -1; }
  switch (o->kind) {
    case PIPE_R: return pipe_read(*o, iov, cnt, call);
    case EVENTFD: {
      step(o);
      if (fault(call)) { wrote(o, 0xE0 + errno); return -1; }
      if (cnt < 1 || iov[0].iov_len < 8) { errno = EINVAL; return -1; }
      if (o->counter == 0) {
        if (o->nonblock) { errno = EAGAIN; wrote(o, 0xF1); return -1; }
        vmcrt::block_until_ready([&] { return o->counter > 0; });
      }
      uint64_t v = o->counter; o->counter = 0;
      std::memcpy(iov[0].iov_base, &v, 8);
      wrote(o, 0x300 + v);
      return 8;
    }
    case TIMERFD: {
      step(o);
      if (fault(call)) { wrote(o, 0xE0 + errno); return -1; }
      if (cnt < 1 || iov[0].iov_len < 8) { errno = EINVAL; return -1; }
      if (!(o->armed && vmcrt::now_ns() >= o->due)) {
        if (o->nonblock) { errno = EAGAIN; wrote(o, 0xF1); return -1; }
        // a blocking read of an unexpired timer blocks until it expires (forever when it is disarmed)
        vmcrt::block_until_ready_timed([&] { return o->armed && vmcrt::now_ns() >= o->due; }, o->armed ? o->due : LLONG_MAX);
      }
      uint64_t v = 1; o->armed = false;
      std::memcpy(iov[0].iov_base, &v, 8);
      wrote(o, 0x400);
      return 8;
    }
    case FILE_: return rw_hook ? rw_hook(*o, iov, cnt, false) : (errno = EINVAL, -1);
    default: errno = EINVAL; return -1;
  }
}
long do_writev(int fd, const struct iovec* iov, int cnt, int call) {
  KIgn kign;
  Obj* o = obj(fd);
  if (!o) { errno = EBADF; return -1; }
  switch (o->kind) {
    case PIPE_W: return pipe_write(*o, iov, cnt, call);
    case EVENTFD: {
      step(o);
      if (fault(call)) { wrote(o, 0xE0 + errno); return -1; }
      if (cnt < 1 || iov[0].iov_len < 8) { errno = EINVAL; return -1; }
      uint64_t v; std::memcpy(&v, iov[0].iov_base, 8);
      o->counter += v;
      wrote(o, 0x500 + o->counter);
      if (on_state_change) on_state_change();
      return 8;
    }
    case FILE_: return rw_hook ? rw_hook(*o, iov, cnt, true) : (errno = EINVAL, -1);
    default: errno = EINVAL; return -1;
  }
}
int do_close(int fd) {
  KIgn kign;
  if (fd < BASE || fd >= BASE + NFD) { errno = EBADF; return -1; }
  Obj* o = obj(fd);
  if (!o) {
    g_double_close += "close(" + std::to_string(fd) + ") of a descriptor that is not open; ";
    errno = EBADF;
    return -1;
  }
  step(o);
  if (fault(C_CLOSE)) { wrote(o, 0xE0 + errno); return -1; }
  if ((o->kind == URING || o->kind == FILE_) && close_hook) close_hook(fd, *o);
  // the kernel drops every epoll registration of a closed descriptor
  for (auto& e : g_tab) if (e.kind == EPOLL) for (size_t i = 0; i < e.regs.size();) { if (e.regs[i].fd == fd) e.regs.erase(e.regs.begin() + i); else ++i; }
  if (o->kind == PIPE_R) { g_pipes[o->pipe].r_open = false; wrote(&g_pipes[o->pipe], 0x600); }
  if (o->kind == PIPE_W) { g_pipes[o->pipe].w_open = false; wrote(&g_pipes[o->pipe], 0x601); }
  wrote(o, 0x602);
  int opened = o->opened, closed = o->closed + 1;
  *o = Obj{}; o->opened = opened; o->closed = closed;
  if (on_state_change) on_state_change();
  return 0;
}
}  // namespace

void uring_reset() __attribute__((weak));
std::string uring_leaks() __attribute__((weak));
void reset(const Config& c) {
  KIgn kign;
  if (&uring_reset) uring_reset();
  for (auto& o : g_tab) o = Obj{};
  for (auto& p : g_pipes) p = Pipe{};
  std::memset(g_calls, 0, sizeof g_calls);
  g_cfg = c; g_npipes = 0; g_ever_opened = 0; g_double_close.clear();
  g_active = true;
}
bool active() { return g_active; }
bool is_sim(int fd) { return obj(fd) != nullptr; }
int open_count() { int n = 0; for (auto& o : g_tab) if (o.kind != FREE) ++n; return n; }
std::string leaks() {
  KIgn kign;
  std::string s = g_double_close;
  if (&uring_leaks) s += uring_leaks();
  static const char* names[] = {"free", "epoll", "eventfd", "timerfd", "pipe-read", "pipe-write", "io_uring", "file"};
  for (int i = 0; i < NFD; ++i) if (g_tab[i].kind != FREE) s += std::string(names[g_tab[i].kind]) + " descriptor " + std::to_string(BASE + i) + " never closed; ";
  return s;
}
int registrations(int ep) { KIgn kign; Obj* o = obj(ep); return o && o->kind == EPOLL ? (int)o->regs.size() : -1; }
bool registration_points_into(const void* p, size_t n) {
  KIgn kign;
  for (auto& e : g_tab) if (e.kind == EPOLL) for (auto& r : e.regs) {
    const char* q = static_cast<const char*>(r.data.ptr);
    if (q >= static_cast<const char*>(p) && q < static_cast<const char*>(p) + n) return true;
  }
  return false;
}
int calls(int call) { return g_calls[call]; }
std::string dump() {
  std::string s;
  for (int i = 0; i < NFD; ++i) {
    Obj& o = g_tab[i];
    if (o.kind == FREE) continue;
    s += "[" + std::to_string(BASE + i) + ":k" + std::to_string(o.kind);
    if (o.kind == EPOLL) for (auto& r : o.regs) s += " reg" + std::to_string(r.fd);
    if (o.kind == EVENTFD) s += " c" + std::to_string(o.counter);
    if (o.kind == PIPE_R) s += " n" + std::to_string(g_pipes[o.pipe].buf.size());
    s += "]";
  }
  return s;
}
long k_read(int fd, void* buf, size_t n) { struct iovec v{buf, n}; return do_readv(fd, &v, 1, C_READ); }
long k_write(int fd, const void* buf, size_t n) { struct iovec v{const_cast<void*>(buf), n}; return do_writev(fd, &v, 1, C_WRITE); }
int k_close(int fd) { return do_close(fd); }
int pipe_bytes(int rfd) { KIgn kign; Obj* o = obj(rfd); return o && o->kind == PIPE_R ? (int)g_pipes[o->pipe].buf.size() : -1; }
int k_pipe2(int fds[2], int flags) {
  KIgn kign;
  if (g_npipes >= NPIPE) vmcrt::fail("!", "harness", "ksim: too many pipes");
  int pi = g_npipes++;
  g_pipes[pi] = Pipe{}; g_pipes[pi].cap = g_cfg.pipe_capacity; g_pipes[pi].r_open = g_pipes[pi].w_open = true;
  int r = alloc(PIPE_R); g_tab[r - BASE].pipe = pi; g_tab[r - BASE].nonblock = (flags & O_NONBLOCK) != 0;
  int w = alloc(PIPE_W); g_tab[w - BASE].pipe = pi; g_tab[w - BASE].nonblock = (flags & O_NONBLOCK) != 0;
  fds[0] = r; fds[1] = w;
  return 0;
}
}  // namespace ksim

using namespace ksim;
using namespace ksim::detail;

extern "C" {
int __wrap_epoll_create(int n) { if (!in_exec()) return __real_epoll_create(n); KIgn kign; return alloc(EPOLL); }
int __wrap_epoll_create1(int f) { if (!in_exec()) return __real_epoll_create1(f); KIgn kign; return alloc(EPOLL); }
int __wrap_eventfd(unsigned init, int flags) {
  if (!in_exec()) return __real_eventfd(init, flags);
  KIgn kign;
  int fd = alloc(EVENTFD); g_tab[fd - BASE].counter = init; g_tab[fd - BASE].nonblock = (flags & EFD_NONBLOCK) != 0;
  return fd;
}
int __wrap_timerfd_create(int clk, int flags) {
  if (!in_exec()) return __real_timerfd_create(clk, flags);
  KIgn kign;
  int fd = alloc(TIMERFD); g_tab[fd - BASE].nonblock = (flags & TFD_NONBLOCK) != 0;
  return fd;
}
int __wrap_pipe2(int* fds, int flags) { if (!in_exec()) return __real_pipe2(fds, flags); return k_pipe2(fds, flags); }

int __wrap_timerfd_settime(int fd, int flags, const struct itimerspec* nv, struct itimerspec* ov) {
  Obj* o = obj(fd);
  if (!o) return (fd >= BASE) ? (errno = EBADF, -1) : __real_timerfd_settime(fd, flags, nv, ov);
  if (o->kind != TIMERFD) { errno = EINVAL; return -1; }
  KIgn kign;
  step(o);
  if (fault(C_TIMERFD_SETTIME)) { wrote(o, 0xE0 + errno); return -1; }
  long long t = (long long)nv->it_value.tv_sec * 1000000000LL + nv->it_value.tv_nsec;
  if (t == 0) { o->armed = false; }
  else {
    if (flags & TFD_TIMER_ABSTIME) t -= CLOCK_OFFSET_NS; else t += vmcrt::now_ns();
    o->armed = true; o->due = t;
  }
  wrote(o, 0x700 + (uint64_t)(o->armed ? o->due : -1));
  return 0;
}

int __wrap_epoll_ctl(int ep, int op, int fd, struct epoll_event* ev) {
  Obj* e = obj(ep);
  if (!e) return (ep >= BASE) ? (errno = EBADF, -1) : __real_epoll_ctl(ep, op, fd, ev);
  if (e->kind != EPOLL) { errno = EINVAL; return -1; }
  KIgn kign;
  step(e);
  if (fault(C_EPOLL_CTL)) { wrote(e, 0xE0 + errno); return -1; }
  Obj* t = obj(fd);
  int rc = 0;
  if (!t) { errno = EBADF; rc = -1; }
  else if (t == e || t->kind == EPOLL) { errno = EINVAL; rc = -1; }
  else {
    size_t i = 0;
    for (; i < e->regs.size(); ++i) if (e->regs[i].fd == fd) break;
    bool have = i < e->regs.size();
    if (op == EPOLL_CTL_ADD) { if (have) { errno = EEXIST; rc = -1; } else e->regs.push_back(Reg{fd, ev->events, ev->data}); }
    else if (op == EPOLL_CTL_DEL) { if (!have) { errno = ENOENT; rc = -1; } else e->regs.erase(e->regs.begin() + i); }
    else if (op == EPOLL_CTL_MOD) { if (!have) { errno = ENOENT; rc = -1; } else { e->regs[i].events = ev->events; e->regs[i].data = ev->data; } }
    else { errno = EINVAL; rc = -1; }
  }
  wrote(e, 0x800 + (uint64_t)op * 64 + (uint64_t)(fd - BASE) + (rc ? 0x40000 : 0));
  return rc;
}

int __wrap_epoll_wait(int ep, struct epoll_event* evs, int maxev, int timeout) {
  Obj* e = obj(ep);
  if (!e) return (ep >= BASE) ? (errno = EBADF, -1) : __real_epoll_wait(ep, evs, maxev, timeout);
  if (e->kind != EPOLL) { errno = EINVAL; return -1; }
  KIgn kign;
  step(e);
  if (fault(C_EPOLL_WAIT)) { wrote(e, 0xE0 + errno); return -1; }
  if (count_ready(*e) == 0 && timeout != 0) {
    long long deadline = LLONG_MAX;
    for (auto& r : e->regs) { Obj* t = obj(r.fd); if (t && t->kind == TIMERFD && t->armed && (r.events & EPOLLIN)) deadline = std::min(deadline, t->due); }
    if (timeout > 0) deadline = std::min(deadline, vmcrt::now_ns() + (long long)timeout * 1000000LL);
    vmcrt::block_until_ready_timed([e] { return count_ready(*e) > 0; }, deadline);
  }
  int n = 0;
  uint64_t h = 0;
  auto take = [&](const Reg& r) {
    uint32_t m = reported(r);
    if (m && n < maxev) { evs[n].events = m; evs[n].data = r.data; ++n; h = h * 131 + (uint64_t)(r.fd - BASE) * 8 + m; }
  };
  if (g_cfg.reverse_ready_order) for (size_t i = e->regs.size(); i-- > 0;) take(e->regs[i]);
  else for (auto& r : e->regs) take(r);
  // the answer depends on every registered descriptor's state
  for (auto& r : e->regs) { Obj* t = obj(r.fd); if (t) k_acquire(t->kind == PIPE_R || t->kind == PIPE_W ? (const void*)&g_pipes[t->pipe] : (const void*)t); }
  for (auto& r : e->regs) { Obj* t = obj(r.fd); if (t) vmcrt::observed(t->kind == PIPE_R || t->kind == PIPE_W ? (const void*)&g_pipes[t->pipe] : (const void*)t, vmcrt::K_RMW, reported(r), true); }
  wrote(e, 0x900 + h);
  return n;
}

ssize_t __wrap_read(int fd, void* buf, size_t n) {
  if (fd < BASE) return __real_read(fd, buf, n);
  struct iovec v{buf, n}; return do_readv(fd, &v, 1, C_READ);
}
ssize_t __wrap_write(int fd, const void* buf, size_t n) {
  if (fd < BASE) return __real_write(fd, buf, n);
  struct iovec v{const_cast<void*>(buf), n}; return do_writev(fd, &v, 1, C_WRITE);
}
ssize_t __wrap_readv(int fd, const struct iovec* iov, int cnt) { if (fd < BASE) return __real_readv(fd, iov, cnt); return do_readv(fd, iov, cnt, C_READV); }
ssize_t __wrap_writev(int fd, const struct iovec* iov, int cnt) { if (fd < BASE) return __real_writev(fd, iov, cnt); return do_writev(fd, iov, cnt, C_WRITEV); }
int __wrap_close(int fd) { if (fd < BASE) return __real_close(fd); return do_close(fd); }
int __wrap_clock_gettime(clockid_t clk, struct timespec* ts) {
  if (!in_exec() || vmcrt::self() < 0 || clk != CLOCK_MONOTONIC) return __real_clock_gettime(clk, ts);
  long long t = CLOCK_OFFSET_NS + vmcrt::now_ns();
  ts->tv_sec = t / 1000000000LL; ts->tv_nsec = t % 1000000000LL;
  return 0;
}
}
