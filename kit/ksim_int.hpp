// ksim internals shared between ksim.cpp and ksim_uring.cpp
#pragma once
#include "ksim.hpp"
#include <vmc_rt.hpp>
#include <deque>
#include <sys/epoll.h>

namespace ksim {
namespace detail {
enum Kind { FREE = 0, EPOLL, EVENTFD, TIMERFD, PIPE_R, PIPE_W, URING, FILE_ };
struct Reg { int fd; uint32_t events; epoll_data_t data; };
struct Pipe { std::deque<unsigned char> buf; int cap = 4; bool r_open = false, w_open = false; };
struct Obj {
  int kind = FREE; bool nonblock = false;
  uint64_t counter = 0;             // eventfd
  bool armed = false; long long due = 0;  // timerfd (virtual ns)
  int pipe = -1;                    // index into g_pipes
  std::vector<Reg> regs;            // epoll
  int opened = 0, closed = 0;
  int aux = -1;                     // uring / file index
};
constexpr int NFD = 48, NPIPE = 16;
constexpr long long CLOCK_OFFSET_NS = 1000LL * 1000000000LL;
extern Obj g_tab[NFD];
extern Pipe g_pipes[NPIPE];
extern Config g_cfg;
extern bool g_active;
Obj* obj(int fd);
int alloc(int kind);
uint32_t readiness(const Obj& o);
// ThreadSanitizer flavour: operations on one kernel object are ordered by the kernel (TSan models the same for real
// descriptors: write/close release, read/epoll_wait acquire); the simulator is not instrumented, so say it explicitly
extern "C" void __tsan_acquire(void*) __attribute__((weak));
extern "C" void __tsan_release(void*) __attribute__((weak));
extern "C" void AnnotateIgnoreReadsBegin(const char*, int) __attribute__((weak));
extern "C" void AnnotateIgnoreReadsEnd(const char*, int) __attribute__((weak));
extern "C" void AnnotateIgnoreWritesBegin(const char*, int) __attribute__((weak));
extern "C" void AnnotateIgnoreWritesEnd(const char*, int) __attribute__((weak));
// the simulator's own data structures are "kernel memory": its accesses are not part of the program under test
struct KIgn {
  KIgn() { if (AnnotateIgnoreReadsBegin) { AnnotateIgnoreReadsBegin("", 0); AnnotateIgnoreWritesBegin("", 0); } }
  ~KIgn() { if (AnnotateIgnoreReadsBegin) { AnnotateIgnoreWritesEnd("", 0); AnnotateIgnoreReadsEnd("", 0); } }
  KIgn(const KIgn&) = delete;
};
inline void k_acquire(const void* a) { if (__tsan_acquire) __tsan_acquire(const_cast<void*>(a)); }
inline void k_release(const void* a) { if (__tsan_release) __tsan_release(const_cast<void*>(a)); }
inline void step(const void* addr) { vmcrt::point(addr, vmcrt::K_KERNEL); k_acquire(addr); }
inline void wrote(const void* addr, uint64_t v) { k_release(addr); vmcrt::observed(addr, vmcrt::K_RMW, v, true); }
bool fault(int call);
// hooks the uring simulator installs (null when it is not linked)
extern void (*on_state_change)();          // some descriptor's readiness may have changed
extern bool (*close_hook)(int fd, Obj& o); // called for URING / FILE_ descriptors on close
extern long (*rw_hook)(Obj& o, const struct iovec* iov, int cnt, bool write);  // read/write on FILE_
}  // namespace detail
}  // namespace ksim
