// ksim — io_uring simulator ("ringsim").  Replaces source/linux/io_uring_syscall.cpp: io_uring_setup/enter are served
// from here, the three ring regions are handed out through the mmap/munmap seams, and requests are executed against
// the other simulated descriptors (eventfd polls, pipe and in-memory-file reads/writes, absolute timeouts on the
// virtual clock, ASYNC_CANCEL, TIMEOUT_REMOVE).  Completions are posted by whichever simulated call makes a request
// completable (as the kernel does from the waker's context) or by io_uring_enter itself; the ring memory is ordinary
// heap memory that is freed at munmap, so a context that touches a ring after unmapping it is caught by ASan.
// Ring sizes are a parameter (Config::uring_sq_entries): the library must work with whatever size the kernel
// reports, and a tiny ring makes the submission-queue-full / completion-budget paths reachable with three operations.
#include "ksim_int.hpp"

#include <cerrno>
#include <climits>
#include <cstdlib>
#include <cstring>
#include <poll.h>
#include <signal.h>
#include <string>
#include <sys/mman.h>
#include <sys/uio.h>
#include <linux/time_types.h>
#include <liburing/io_uring.h>

extern "C" {
void* __real_mmap(void*, size_t, int, int, int, off_t);
int __real_munmap(void*, size_t);
}

namespace ksim {
using namespace detail;
namespace {
constexpr unsigned MAXN = 16;
struct SqRing { unsigned head, tail, mask, entries, flags, dropped, pad[2]; unsigned array[MAXN]; };
struct CqRing { unsigned head, tail, mask, entries, overflow, flags, pad[2]; io_uring_cqe cqes[2 * MAXN]; };
struct Req {
  unsigned char op; int fd; uint64_t user_data; uint64_t addr; uint32_t len; uint64_t off; uint32_t poll_events; long long due; uint64_t seq;
};
struct Region { void* p = nullptr; void* last = nullptr; size_t size = 0; int mapped = 0, unmapped = 0; };
struct Uring {
  bool live = false; bool fd_open = false; unsigned sq_n = 0, cq_n = 0;
  Region r[3];   // 0 sq ring, 1 cq ring, 2 sqes
  std::vector<Req> pending;
  uint64_t seq = 0;
  SqRing* sq() { return static_cast<SqRing*>(r[0].p); }
  CqRing* cq() { return static_cast<CqRing*>(r[1].p); }
  io_uring_sqe* sqes() { return static_cast<io_uring_sqe*>(r[2].p); }
};
struct File { std::vector<unsigned char> data; bool live = false; };
constexpr int NURING = 4, NFILE = 8;
Uring g_ur[NURING];
File g_files[NFILE];
std::string g_ring_errors;

unsigned cq_count(Uring& u) { return u.cq()->tail - u.cq()->head; }

void post(Uring& u, uint64_t user_data, int res) {
  if (!u.r[1].p) return;
  CqRing* c = u.cq();
  if (c->tail - c->head >= u.cq_n) {
    // the library keeps a budget (pending_operation_count) precisely so that this never happens
    g_ring_errors += "completion queue overflow; ";
    ++c->overflow;
    return;
  }
  io_uring_cqe& e = c->cqes[c->tail & c->mask];
  e.user_data = user_data; e.res = res; e.flags = 0;
  k_release(&c->tail);   // the kernel publishes the entry with a release store of the tail
  ++c->tail;
  vmcrt::observed(&c->tail, vmcrt::K_STORE, c->tail, true);
}

long file_rw(File& f, uint64_t off, const struct iovec* iov, int cnt, bool write, bool one_byte) {
  size_t want = 0; for (int i = 0; i < cnt; ++i) want += iov[i].iov_len;
  if (one_byte && want > 1) want = 1;
  if (write) {
    if (f.data.size() < off + want) f.data.resize(off + want);
    size_t done = 0;
    for (int i = 0; i < cnt && done < want; ++i) { size_t k = std::min(iov[i].iov_len, want - done); std::memcpy(f.data.data() + off + done, iov[i].iov_base, k); done += k; }
    return (long)done;
  }
  if (off >= f.data.size()) return 0;
  size_t n = std::min(want, f.data.size() - (size_t)off), done = 0;
  for (int i = 0; i < cnt && done < n; ++i) { size_t k = std::min(iov[i].iov_len, n - done); std::memcpy(iov[i].iov_base, f.data.data() + off + done, k); done += k; }
  return (long)done;
}

// can this request complete now?  (read-only: also used from scheduler predicates)
bool completable(const Req& q) {
  switch (q.op) {
    case IORING_OP_POLL_ADD: { Obj* o = obj(q.fd); return !o || (readiness(*o) & (q.poll_events | POLLHUP | POLLERR)); }
    case IORING_OP_TIMEOUT: return vmcrt::now_ns() >= q.due;
    case IORING_OP_READV: {
      Obj* o = obj(q.fd);
      if (!o || o->kind != PIPE_R) return true;   // (a 6.x kernel arms a poll for O_NONBLOCK pipes too: uring_conf)
      const Pipe& p = g_pipes[o->pipe];
      return !p.buf.empty() || !p.w_open;
    }
    case IORING_OP_WRITEV: {
      Obj* o = obj(q.fd);
      if (!o || o->kind != PIPE_W) return true;
      const Pipe& p = g_pipes[o->pipe];
      return (int)p.buf.size() < p.cap || !p.r_open;
    }
    default: return true;
  }
}
int count_completable(const Uring& u) { int n = 0; for (auto& q : u.pending) if (completable(q)) ++n; return n; }

int execute(Req& q) {
  switch (q.op) {
    case IORING_OP_NOP: return 0;
    case IORING_OP_POLL_ADD: { Obj* o = obj(q.fd); if (!o) return -EBADF; return (int)(readiness(*o) & (q.poll_events | POLLHUP | POLLERR)); }
    case IORING_OP_TIMEOUT: return -ETIME;
    case IORING_OP_READV:
    case IORING_OP_WRITEV: {
      bool wr = q.op == IORING_OP_WRITEV;
      int call = wr ? C_WRITEV : C_READV;
      Obj* o = obj(q.fd);
      if (!o) return -EBADF;
      const struct iovec* iov = reinterpret_cast<const struct iovec*>(q.addr);
      if (fault(call)) return -errno;
      bool one = g_cfg.short_call == call && calls(call) - 1 == g_cfg.short_nth;
      if (o->kind == FILE_) return (int)file_rw(g_files[o->aux], q.off, iov, (int)q.len, wr, one);
      if (o->kind == PIPE_R && !wr) {
        Pipe& p = g_pipes[o->pipe];
        size_t want = 0; for (unsigned i = 0; i < q.len; ++i) want += iov[i].iov_len;
        if (p.buf.empty() && p.w_open && want > 0) return -EAGAIN;
        size_t n = std::min(want, p.buf.size()); if (one && n > 1) n = 1;
        size_t done = 0;
        for (unsigned i = 0; i < q.len && done < n; ++i) { size_t k = std::min(iov[i].iov_len, n - done); for (size_t j = 0; j < k; ++j) { static_cast<unsigned char*>(iov[i].iov_base)[j] = p.buf.front(); p.buf.pop_front(); } done += k; }
        wrote(&p, 0x1100 + done);
        return (int)done;
      }
      if (o->kind == PIPE_W && wr) {
        Pipe& p = g_pipes[o->pipe];
        if (!p.r_open) return -EPIPE;
        size_t want = 0; for (unsigned i = 0; i < q.len; ++i) want += iov[i].iov_len;
        if ((int)p.buf.size() >= p.cap && want > 0) return -EAGAIN;
        size_t n = std::min(want, (size_t)p.cap - p.buf.size()); if (one && n > 1) n = 1;
        size_t done = 0;
        for (unsigned i = 0; i < q.len && done < n; ++i) { size_t k = std::min(iov[i].iov_len, n - done); for (size_t j = 0; j < k; ++j) p.buf.push_back(static_cast<const unsigned char*>(iov[i].iov_base)[j]); done += k; }
        wrote(&p, 0x1200 + done);
        return (int)done;
      }
      return -EBADF;
    }
    default: return -EINVAL;
  }
}

bool g_in_progress = false;
// complete everything that can complete, in submission order (or reverse)
void progress(Uring& u) {
  if (!u.live || !u.fd_open) return;
  bool again = true;
  while (again) {
    again = false;
    size_t n = u.pending.size();
    for (size_t k = 0; k < n; ++k) {
      size_t i = g_cfg.reverse_ready_order ? n - 1 - k : k;
      if (!completable(u.pending[i])) continue;
      Req q = u.pending[i];
      u.pending.erase(u.pending.begin() + i);
      int res = execute(q);
      post(u, q.user_data, res);
      again = true;   // a pipe transfer can make another request completable
      break;
    }
  }
}
void progress_all() {
  KIgn kign;
  if (g_in_progress) return;
  g_in_progress = true;
  for (auto& u : g_ur) progress(u);
  g_in_progress = false;
}

void submit(Uring& u, const io_uring_sqe& s) {
  Req q{}; q.op = s.opcode; q.fd = s.fd; q.user_data = s.user_data; q.addr = s.addr; q.len = s.len; q.off = s.off; q.poll_events = s.poll_events; q.seq = ++u.seq;
  switch (s.opcode) {
    case IORING_OP_ASYNC_CANCEL:
    case IORING_OP_TIMEOUT_REMOVE: {
      bool want_timeout = s.opcode == IORING_OP_TIMEOUT_REMOVE;
      for (size_t i = 0; i < u.pending.size(); ++i) {
        Req& t = u.pending[i];
        if (t.user_data != s.addr) continue;
        if (want_timeout != (t.op == IORING_OP_TIMEOUT)) continue;
        uint64_t ud = t.user_data;
        u.pending.erase(u.pending.begin() + i);
        post(u, ud, -ECANCELED);
        post(u, s.user_data, 0);
        return;
      }
      post(u, s.user_data, -ENOENT);
      return;
    }
    case IORING_OP_TIMEOUT: {
      struct kts { int64_t tv_sec; long long tv_nsec; };
      const kts* ts = reinterpret_cast<const kts*>(s.addr);
      long long t = ts->tv_sec * 1000000000LL + ts->tv_nsec;
      if (s.timeout_flags & IORING_TIMEOUT_ABS) t -= CLOCK_OFFSET_NS; else t += vmcrt::now_ns();
      q.due = t;
      u.pending.push_back(q);
      return;
    }
    case IORING_OP_NOP:
    case IORING_OP_POLL_ADD:
    case IORING_OP_READV:
    case IORING_OP_WRITEV:
      u.pending.push_back(q);
      return;
    default:
      post(u, s.user_data, -EINVAL);
      return;
  }
}

bool uring_close(int, Obj& o) {
  if (o.kind == URING) { Uring& u = g_ur[o.aux]; u.fd_open = false; u.pending.clear(); }
  if (o.kind == FILE_) { g_files[o.aux].live = false; }
  return true;
}
long file_hook(Obj& o, const struct iovec* iov, int cnt, bool write) { return file_rw(g_files[o.aux], write ? g_files[o.aux].data.size() : 0, iov, cnt, write, false); }

struct Install { Install() { on_state_change = &progress_all; close_hook = &uring_close; rw_hook = &file_hook; } } g_install;
}  // namespace

void uring_reset() {
  KIgn kign;
  for (auto& u : g_ur) { for (auto& r : u.r) if (r.p && r.mapped > r.unmapped) std::free(r.p); u = Uring{}; }
  for (auto& f : g_files) f = File{};
  g_ring_errors.clear();
}
std::string uring_leaks() {
  KIgn kign;
  std::string s = g_ring_errors;
  for (auto& u : g_ur) if (u.live) for (int i = 0; i < 3; ++i) {
    if (u.r[i].mapped > u.r[i].unmapped) s += std::string("io_uring region ") + std::to_string(i) + " still mapped; ";
  }
  return s;
}
int uring_pending(int fd) { Obj* o = obj(fd); return o && o->kind == URING ? (int)g_ur[o->aux].pending.size() : -1; }
bool uring_request_points_into(const void* p, size_t n) {
  KIgn kign;
  for (auto& u : g_ur) if (u.live) for (auto& q : u.pending) {
    const char* a = reinterpret_cast<const char*>(q.user_data);
    if (a >= static_cast<const char*>(p) && a < static_cast<const char*>(p) + n) return true;
    if (q.op == IORING_OP_READV || q.op == IORING_OP_WRITEV) {
      const char* v = reinterpret_cast<const char*>(q.addr);
      if (v >= static_cast<const char*>(p) && v < static_cast<const char*>(p) + n) return true;
    }
  }
  return false;
}
int k_open_file(const void* data, size_t n) {
  KIgn kign;
  for (int i = 0; i < NFILE; ++i) if (!g_files[i].live) {
    g_files[i].live = true; g_files[i].data.assign(static_cast<const unsigned char*>(data), static_cast<const unsigned char*>(data) + n);
    int fd = alloc(FILE_); g_tab[fd - BASE].aux = i;
    return fd;
  }
  vmcrt::fail("!", "harness", "ksim: too many files");
}
std::string file_contents(int fd) { KIgn kign; Obj* o = obj(fd); if (!o || o->kind != FILE_) return "?"; auto& d = g_files[o->aux].data; return std::string(d.begin(), d.end()); }
}  // namespace ksim

using namespace ksim;
using namespace ksim::detail;

// ---- the three functions of source/linux/io_uring_syscall.cpp ------------------------------------------------------
namespace unifex::linuxos {
int io_uring_register(int, unsigned, const void*, unsigned) { errno = ENOSYS; return -1; }

int io_uring_setup(unsigned entries, struct io_uring_params* p) {
  if (!ksim::active()) { errno = ENOSYS; return -1; }
  KIgn kign;
  int ui = -1;
  for (int i = 0; i < NURING; ++i) if (!g_ur[i].live) { ui = i; break; }
  if (ui < 0) vmcrt::fail("!", "harness", "ksim: too many io_urings");
  Uring& u = g_ur[ui];
  u = Uring{}; u.live = true; u.fd_open = true;
  unsigned n = g_cfg.uring_sq_entries ? (unsigned)g_cfg.uring_sq_entries : entries;
  if (n > MAXN) n = MAXN;
  u.sq_n = n; u.cq_n = 2 * n;
  u.r[0].size = sizeof(SqRing); u.r[1].size = sizeof(CqRing); u.r[2].size = sizeof(io_uring_sqe) * n;
  for (auto& r : u.r) { r.p = std::calloc(1, r.size); }
  u.sq()->mask = n - 1; u.sq()->entries = n;
  u.cq()->mask = 2 * n - 1; u.cq()->entries = 2 * n;
  p->sq_entries = n; p->cq_entries = 2 * n; p->features = 0;
  p->sq_off.head = offsetof(SqRing, head); p->sq_off.tail = offsetof(SqRing, tail); p->sq_off.ring_mask = offsetof(SqRing, mask);
  p->sq_off.ring_entries = offsetof(SqRing, entries); p->sq_off.flags = offsetof(SqRing, flags); p->sq_off.dropped = offsetof(SqRing, dropped);
  p->sq_off.array = offsetof(SqRing, array);
  p->cq_off.head = offsetof(CqRing, head); p->cq_off.tail = offsetof(CqRing, tail); p->cq_off.ring_mask = offsetof(CqRing, mask);
  p->cq_off.ring_entries = offsetof(CqRing, entries); p->cq_off.overflow = offsetof(CqRing, overflow); p->cq_off.cqes = offsetof(CqRing, cqes);
  int fd = alloc(URING); g_tab[fd - BASE].aux = ui;
  return fd;
}

int io_uring_enter(int fd, unsigned to_submit, unsigned min_complete, unsigned flags, sigset_t*) {
  Obj* o = obj(fd);
  if (!o || o->kind != URING) { errno = EBADF; return -1; }
  KIgn kign;
  Uring& u = g_ur[o->aux];
  step(o);
  if (!u.r[0].p || !u.r[1].p || !u.r[2].p) { errno = EFAULT; return -1; }
  // consume submissions
  SqRing* sq = u.sq();
  k_acquire(&sq->tail);    // the kernel reads the submission tail with acquire semantics
  unsigned avail = sq->tail - sq->head, n = std::min(to_submit, avail);
  for (unsigned i = 0; i < n; ++i) {
    unsigned idx = sq->array[sq->head & sq->mask];
    if (idx >= u.sq_n) { ++sq->dropped; ++sq->head; continue; }
    io_uring_sqe s = u.sqes()[idx];
    ++sq->head;
    submit(u, s);
  }
  vmcrt::observed(&sq->head, vmcrt::K_STORE, sq->head, true);
  progress_all();
  if ((flags & IORING_ENTER_GETEVENTS) && min_complete > 0) {
    while (cq_count(u) < min_complete) {
      long long deadline = LLONG_MAX;
      for (auto& q : u.pending) if (q.op == IORING_OP_TIMEOUT) deadline = std::min(deadline, q.due);
      Uring* up = &u;
      vmcrt::block_until_ready_timed([up, min_complete] { return cq_count(*up) >= min_complete || count_completable(*up) > 0; }, deadline);
      progress_all();
    }
  }
  wrote(o, 0x2000 + (uint64_t)n * 64 + cq_count(u));
  return (int)n;
}
}  // namespace unifex::linuxos

extern "C" {
void* __wrap_mmap(void* addr, size_t len, int prot, int flags, int fd, off_t off) {
  Obj* o = obj(fd);
  if (!o || o->kind != URING) return __real_mmap(addr, len, prot, flags, fd, off);
  KIgn kign;
  Uring& u = g_ur[o->aux];
  int ri = (unsigned long long)off == IORING_OFF_SQ_RING ? 0 : (unsigned long long)off == IORING_OFF_CQ_RING ? 1 : (unsigned long long)off == IORING_OFF_SQES ? 2 : -1;
  if (ri < 0 || len > u.r[ri].size || u.r[ri].mapped > u.r[ri].unmapped) { errno = EINVAL; return MAP_FAILED; }
  if (!u.r[ri].p) u.r[ri].p = std::calloc(1, u.r[ri].size);
  ++u.r[ri].mapped;
  return u.r[ri].p;
}
int __wrap_munmap(void* p, size_t len) {
  KIgn kign;
  if (ksim::active())
    for (auto& u : g_ur) if (u.live) for (auto& r : u.r) if (r.p == p && r.mapped > r.unmapped) {
      ++r.unmapped;
      std::free(r.p);   // any later access through a stale ring pointer is a use-after-free
      r.last = r.p; r.p = nullptr;
      return 0;
    }
  if (ksim::active())
    for (auto& u : g_ur) if (u.live) for (auto& r : u.r) if (r.last == p) { g_ring_errors += "io_uring region unmapped twice; "; errno = EINVAL; return -1; }
  return __real_munmap(p, len);
}
}
