// A harness-owned stoppable token type (not inplace_stop_token) whose callback_type counts live
// registrations. Semantics: callbacks run on the requesting thread while a recursive lock is held, so a
// callback's destructor blocks until a concurrent execution finished and re-entrant removal works.
#pragma once
#include <unifex/stop_token_concepts.hpp>
#include <vector>

namespace kit {
struct probe_stop_source;
struct probe_cb_base {
  virtual void run() noexcept = 0;
  probe_stop_source* src = nullptr;
  bool registered = false;
};
struct probe_stop_source {
  std::recursive_mutex m;
  std::vector<probe_cb_base*> cbs;
  bool requested = false;
  int live = 0;          // live registrations (including ones that already ran but are not yet destroyed)
  int total = 0;         // registrations ever made
  bool request_stop() noexcept {
    std::lock_guard<std::recursive_mutex> lk(m);
    if (requested) return true;
    requested = true;
    while (!cbs.empty()) {
      auto* cb = cbs.back();
      cbs.pop_back();
      cb->registered = false;
      cb->run();
    }
    return false;
  }
  bool stop_requested() noexcept { std::lock_guard<std::recursive_mutex> lk(m); return requested; }
  struct token;
  token get_token() noexcept;
};
template <class F>
struct probe_callback final : probe_cb_base {
  F f;
  template <class T>
  probe_callback(typename probe_stop_source::token t, T&& fn);
  ~probe_callback() {
    if (!src) return;
    std::lock_guard<std::recursive_mutex> lk(src->m);
    --src->live;
    if (registered) {
      for (size_t i = 0; i < src->cbs.size(); ++i)
        if (src->cbs[i] == this) { src->cbs.erase(src->cbs.begin() + i); break; }
    }
  }
  void run() noexcept override { f(); }
};
struct probe_stop_source::token {
  probe_stop_source* s = nullptr;
  // moving from the token empties it, as with std::stop_token: asking a moved-from token anything is asking the wrong object
  token() = default;
  explicit token(probe_stop_source* p) noexcept : s(p) {}
  token(const token&) = default;
  token& operator=(const token&) = default;
  token(token&& o) noexcept : s(o.s) { o.s = nullptr; }
  token& operator=(token&& o) noexcept { s = o.s; if (&o != this) o.s = nullptr; return *this; }
  template <class F> using callback_type = probe_callback<F>;
  bool stop_requested() const noexcept { return s && s->stop_requested(); }
  bool stop_possible() const noexcept { return s != nullptr; }
  friend bool operator==(const token& a, const token& b) noexcept { return a.s == b.s; }
  friend bool operator!=(const token& a, const token& b) noexcept { return a.s != b.s; }
};
using probe_stop_token = probe_stop_source::token;
inline probe_stop_token probe_stop_source::get_token() noexcept { return token{this}; }
template <class F>
template <class T>
probe_callback<F>::probe_callback(probe_stop_token t, T&& fn) : f((T&&)fn) {
  src = t.s;
  if (!src) return;
  std::lock_guard<std::recursive_mutex> lk(src->m);
  ++src->live; ++src->total;
  if (src->requested) { run(); return; }
  registered = true;
  src->cbs.push_back(this);
}
}  // namespace kit
