// kit: probe receiver, deferred probe leaf sender, heap-allocated self-freeing operations.
// Execution under vmc is serialised, so monitors are plain variables.
#pragma once
#include <vmc_rt.hpp>
#include <unifex/get_stop_token.hpp>
#include <unifex/inline_scheduler.hpp>
#include <unifex/inplace_stop_token.hpp>
#include <unifex/receiver_concepts.hpp>
#include <unifex/scheduler_concepts.hpp>
#include <unifex/sender_concepts.hpp>
#include <unifex/blocking.hpp>
#include <exception>
#include <optional>
#include <string>

namespace kit {

struct tagged_error { int tag; };

// ---- probe receiver -------------------------------------------------------------------------------
struct RcvState {
  int count = 0;          // completion signals received
  char how = '?';         // 'V' 'E' 'D'
  int value = 0;          // first int-convertible value (or number of values if none is)
  int nvalues = 0;
  int err_tag = -1;       // tag of a kit::tagged_error / int error, -2 for other exception types
  int thread = -2;        // logical thread that delivered the signal
  long long when = 0;     // virtual time of the signal
  bool in_start = false;  // the harness sets this around start(): was the signal delivered inside start()?
  bool signalled_in_start = false;
  const char* props = "C01";
  std::string name = "receiver";
  void signal(char h) {
    VMC_TSAN_REL(&::vmc::g_wait_tok);
    ++count; how = h; thread = vmcrt::self(); when = vmcrt::now_ns(); signalled_in_start = in_start;
    if (count > 1) vmcrt::fail(props, "completed-twice", (name + " received a second completion signal").c_str());
  }
  std::string str() const { return std::string(1, how) + (how == 'V' ? std::to_string(value) : how == 'E' ? std::to_string(err_tag) : ""); }
};

inline int error_tag(std::exception_ptr e) {
  if (!e) return -3;
  try { std::rethrow_exception(e); }
  catch (const tagged_error& t) { return t.tag; }
  catch (int i) { return i; }
  catch (...) { return -2; }
}

// Moving from a probe receiver is destructive (as for a receiver that owns its state through a unique_ptr): the library
// must never complete or query a receiver it has already moved from.
struct MoveGuard {
  bool moved = false;
  MoveGuard() = default;
  MoveGuard(const MoveGuard&) = default;
  MoveGuard& operator=(const MoveGuard&) = default;
  MoveGuard(MoveGuard&& o) noexcept : moved(o.moved) { o.moved = true; }
  MoveGuard& operator=(MoveGuard&& o) noexcept { moved = o.moved; if (&o != this) o.moved = true; return *this; }
  void use(const char* what) const {
    if (moved) vmcrt::fail("C02,C12,C18", "moved-from-receiver", (std::string("a receiver was used after it had been moved from: ") + what).c_str());
  }
};

template <class Sched = unifex::inline_scheduler, class Token = unifex::inplace_stop_token>
struct Rcv {
  RcvState* s;
  Token tok{};
  Sched sch{};
  MoveGuard g{};
  template <class... A>
  void set_value(A&&... a) noexcept {
    g.use("set_value");
    s->nvalues = (int)sizeof...(A);
    s->value = (int)sizeof...(A);
    bool got = false;
    (void)std::initializer_list<int>{(take(got, a), 0)...};
    s->signal('V');
  }
  template <class E>
  void set_error(E&& e) noexcept {
    g.use("set_error");
    if constexpr (std::is_same_v<std::decay_t<E>, std::exception_ptr>) s->err_tag = error_tag(e);
    else if constexpr (std::is_same_v<std::decay_t<E>, tagged_error>) s->err_tag = e.tag;
    else if constexpr (std::is_convertible_v<E, int>) s->err_tag = (int)e;
    else s->err_tag = -2;
    s->signal('E');
  }
  void set_done() noexcept { g.use("set_done"); s->signal('D'); }
  friend Token tag_invoke(unifex::tag_t<unifex::get_stop_token>, const Rcv& r) noexcept { r.g.use("get_stop_token"); return r.tok; }
  friend Sched tag_invoke(unifex::tag_t<unifex::get_scheduler>, const Rcv& r) noexcept { r.g.use("get_scheduler"); return r.sch; }
 private:
  template <class X>
  void take(bool& got, X&& x) noexcept {
    if constexpr (std::is_convertible_v<X, int>) { if (!got) { s->value = (int)x; got = true; } }
  }
};

// ---- deferred probe leaf ----------------------------------------------------------------------------
struct LeafState {
  int started = 0;
  int completed = 0;
  int completing = 0;            // completions that have deregistered their stop callback but not yet signalled
  bool stop_seen = false;        // the leaf's stop callback fired (or stop was already requested at start)
  bool stop_at_start = false;
  int ops_alive = 0, ops_made = 0;
  int start_thread = -2;
  void* op = nullptr;
  void (*fire)(void*, char, int) = nullptr;
  const char* props = "C01,C02";
  std::string name = "leaf";
  bool pending() const { return started > completed + completing; }
};

template <class... Vs>
struct LeafSenderT {
  LeafState* st;
  template <template <class...> class V, template <class...> class T> using value_types = V<T<Vs...>>;
  template <template <class...> class V> using error_types = V<std::exception_ptr>;
  static constexpr bool sends_done = true;
  static constexpr unifex::blocking_kind blocking = unifex::blocking_kind::never;
  template <class R>
  struct Op {
    LeafState* st; R r;
    struct Cb { LeafState* st; void operator()() noexcept { st->stop_seen = true; } };
    using cb_t = typename unifex::stop_token_type_t<R>::template callback_type<Cb>;
    std::optional<cb_t> cb;
    bool done_ = false;
    Op(LeafState* s, R&& rr) : st(s), r((R&&)rr) { ++st->ops_alive; ++st->ops_made; }
    Op(Op&&) = delete;
    ~Op() {
      --st->ops_alive;
      if (st->op == this && st->started > st->completed && !done_)
        vmcrt::fail(st->props, "child-destroyed-early", (st->name + ": operation state destroyed before it completed").c_str());
    }
    void start() noexcept {
      LeafState* s = st;
      s->op = this; s->start_thread = vmcrt::self();
      s->fire = [](void* p, char ch, int v) {
        auto* self = static_cast<Op*>(p);
        if (self->done_) vmcrt::fail(self->st->props, "leaf-twice", "harness error: leaf completed twice");
        self->done_ = true;
        LeafState* ls = self->st;
        ++ls->completing;
        self->cb.reset();
        --ls->completing; ++ls->completed;
        if (ch == 'V') {
          if constexpr (sizeof...(Vs) == 1) unifex::set_value(std::move(self->r), int(v));
          else unifex::set_value(std::move(self->r));
        } else if (ch == 'D') unifex::set_done(std::move(self->r));
        else unifex::set_error(std::move(self->r), std::make_exception_ptr(tagged_error{v}));
      };
      if (unifex::get_stop_token(r).stop_requested()) s->stop_at_start = true;
      cb.emplace(unifex::get_stop_token(r), Cb{s});
      // publishing `started` is the last action: from here on another thread may complete (and free) the op
      // (a real leaf would publish with a release store; tell ThreadSanitizer so)
      VMC_TSAN_REL(s);
      ++s->started;
    }
  };
  template <class R>
  Op<std::decay_t<R>> connect(R&& r) const& { return Op<std::decay_t<R>>{st, (R&&)r}; }
};
using Leaf = LeafSenderT<int>;      // completes with an int
using VLeaf = LeafSenderT<>;        // completes with void

// complete a started leaf: ch in {'V','E','D'}
inline void complete(LeafState& s, char ch, int v = 0) {
  if (s.started <= s.completed) vmcrt::fail("!", "harness", "complete() on a leaf that is not pending");
  VMC_TSAN_ACQ(&s);
  s.fire(s.op, ch, v);
}

// ---- heap operation freed by its own receiver ---------------------------------------------------------
struct FreeCtl {
  void* p = nullptr;
  void (*del)(void*) = nullptr;
  bool freed = false;
  void free_now() { if (!freed && del) { freed = true; del(p); } }
};
// receiver that records the signal and then destroys (frees) the operation state it belongs to
template <class Sched = unifex::inline_scheduler, class Token = unifex::inplace_stop_token>
struct FreeingRcv {
  RcvState* s; FreeCtl* ctl; Token tok{}; Sched sch{}; MoveGuard g{};
  template <class... A> void set_value(A&&... a) noexcept { g.use("set_value"); Rcv<Sched, Token>{s, tok, sch}.set_value((A&&)a...); ctl->free_now(); }
  template <class E> void set_error(E&& e) noexcept { g.use("set_error"); Rcv<Sched, Token>{s, tok, sch}.set_error((E&&)e); ctl->free_now(); }
  void set_done() noexcept { g.use("set_done"); Rcv<Sched, Token>{s, tok, sch}.set_done(); ctl->free_now(); }
  friend Token tag_invoke(unifex::tag_t<unifex::get_stop_token>, const FreeingRcv& r) noexcept { r.g.use("get_stop_token"); return r.tok; }
  friend Sched tag_invoke(unifex::tag_t<unifex::get_scheduler>, const FreeingRcv& r) noexcept { r.g.use("get_scheduler"); return r.sch; }
};
template <class S, class R>
struct HeapOp {
  unifex::connect_result_t<S, R> op;
  HeapOp(S&& s, R&& r) : op(unifex::connect((S&&)s, (R&&)r)) {}
};
// connect on the heap; the receiver frees the block when it is completed
template <class S, class R>
auto* make_heap_op(S&& s, R&& r, FreeCtl& ctl) {
  using H = HeapOp<S, R>;
  auto* h = new H((S&&)s, (R&&)r);
  ctl.p = h;
  ctl.del = [](void* p) { delete static_cast<H*>(p); };
  return h;
}
}  // namespace kit
