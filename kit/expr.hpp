// exprgen kit: a harness-owned run-time erasure (dyn sender) so that expression trees over the real
// libunifex adaptors can be enumerated as data, plus the probe leaf used at the bottom of every tree.
#pragma once
#include <probes.hpp>
#include <alloc.hpp>
#include <unifex/get_allocator.hpp>
#include <unifex/sender_concepts.hpp>
#include <unifex/receiver_concepts.hpp>
#include <unifex/scheduler_concepts.hpp>
#include <unifex/inplace_stop_token.hpp>
#include <unifex/unstoppable_token.hpp>
#include <unifex/blocking.hpp>
#include <functional>
#include <map>
#include <memory>
#include <string>
#include <vector>

#ifndef EX_NX
#define EX_NX 0
#endif
#if EX_NX
#define EX_RV_NOEXCEPT noexcept
#else
#define EX_RV_NOEXCEPT
#endif
namespace ex {
using unifex::inplace_stop_token;

// a user-defined receiver query CPO
inline constexpr struct get_custom_fn {
  template <class R>
  auto operator()(const R& r) const noexcept -> decltype(tag_invoke(*this, r)) { return tag_invoke(*this, r); }
} get_custom{};
}  // namespace ex
namespace unifex {
template <> inline constexpr bool is_receiver_query_cpo_v<ex::get_custom_fn> = true;
}
namespace ex {

struct Ctx;
extern Ctx* g;

// ---- scheduler with a context tag ------------------------------------------------------------------
// schedule() completes inline (value, regardless of the stop token) unless deferred scheduling is on, in
// which case it becomes a pending event "run item on context <tag>".
// Moving from a tag_sched empties it (tag -7), like a scheduler that owns a handle: an adaptor that forwards
// its scheduler argument twice hands the moved-from one to whoever comes second.
struct tag_sched {
  int tag = 0;
  tag_sched() = default;
  explicit tag_sched(int t) noexcept : tag(t) {}
  tag_sched(const tag_sched&) = default;
  tag_sched& operator=(const tag_sched&) = default;
  tag_sched(tag_sched&& o) noexcept : tag(o.tag) { o.tag = -7; }
  tag_sched& operator=(tag_sched&& o) noexcept { tag = o.tag; if (&o != this) o.tag = -7; return *this; }
  struct sender;
  sender schedule() const noexcept;
  friend bool operator==(tag_sched a, tag_sched b) noexcept { return a.tag == b.tag; }
  friend bool operator!=(tag_sched a, tag_sched b) noexcept { return a.tag != b.tag; }
};

// what a leaf (or a schedule() operation) could observe through its receiver when it was started
struct Seen {
  int sched_tag = -100, alloc_tag = -100, custom = -100;
  bool stop_possible = false;
};

// ---- erased receiver / operation / sender -------------------------------------------------------------
struct rcv_base {
  virtual void value(int) noexcept = 0;
  virtual void error(std::exception_ptr) noexcept = 0;
  virtual void done() noexcept = 0;
  virtual inplace_stop_token stok() const noexcept = 0;
  virtual bool stop_possible() const noexcept = 0;
  virtual int sched_tag() const noexcept = 0;
  virtual int alloc_tag() const noexcept = 0;
  virtual int custom() const noexcept = 0;
  virtual ~rcv_base() = default;
};
struct op_base { virtual void start() noexcept = 0; virtual ~op_base() = default; };
struct node {
  virtual std::unique_ptr<op_base> connect(rcv_base&) const = 0;
  virtual ~node() = default;
};

// tagged allocator visible through get_allocator
template <class T>
struct tag_alloc : kit::counting_allocator<T> {
  int tag = -1;
  tag_alloc() = default;
  tag_alloc(kit::AllocLedger* l, int t) : kit::counting_allocator<T>(l), tag(t) {}
  template <class U> tag_alloc(const tag_alloc<U>& o) noexcept : kit::counting_allocator<T>(o.led), tag(o.tag) {}
  template <class U> struct rebind { using other = tag_alloc<U>; };
};
kit::AllocLedger* ledger_for_tag(int tag);

// the receiver handed to real adaptors: forwards everything to an rcv_base.
// Moving from it is destructive (like a receiver that owns its state through a unique_ptr): whoever queries or completes
// a moved-from receiver reaches moved_from_rcv(), which reports it.  Receivers are never copied.
struct moved_rcv final : rcv_base {
  [[noreturn]] static void bad(const char* what) {
    vmcrt::fail("C02,C12,C18", "moved-from-receiver", (std::string("a receiver was used after it had been moved from: ") + what).c_str());
  }
  void value(int) noexcept override { bad("set_value"); }
  void error(std::exception_ptr) noexcept override { bad("set_error"); }
  void done() noexcept override { bad("set_done"); }
  inplace_stop_token stok() const noexcept override { bad("get_stop_token"); }
  bool stop_possible() const noexcept override { bad("get_stop_token"); }
  int sched_tag() const noexcept override { bad("get_scheduler"); }
  int alloc_tag() const noexcept override { bad("get_allocator"); }
  int custom() const noexcept override { bad("custom query"); }
};
inline rcv_base* moved_from_rcv() { static moved_rcv m; return &m; }
struct rref {
  rcv_base* r;
  explicit rref(rcv_base* p) noexcept : r(p) {}
  rref(rref&& o) noexcept : r(o.r) { o.r = moved_from_rcv(); }
  rref& operator=(rref&& o) noexcept { r = o.r; if (&o != this) o.r = moved_from_rcv(); return *this; }
  rref(const rref&) = delete;
  rref& operator=(const rref&) = delete;
  void set_value(int v) noexcept { r->value(v); }
  void set_value() noexcept { r->value(0); }
  template <class E>
  void set_error(E&& e) noexcept {
    if constexpr (std::is_same_v<std::decay_t<E>, std::exception_ptr>) r->error((E&&)e);
    else r->error(std::make_exception_ptr((E&&)e));
  }
  void set_done() noexcept { r->done(); }
  friend inplace_stop_token tag_invoke(unifex::tag_t<unifex::get_stop_token>, const rref& x) noexcept { return x.r->stok(); }
  friend tag_sched tag_invoke(unifex::tag_t<unifex::get_scheduler>, const rref& x) noexcept { return tag_sched{x.r->sched_tag()}; }
  friend tag_alloc<std::byte> tag_invoke(unifex::tag_t<unifex::get_allocator>, const rref& x) noexcept { int t = x.r->alloc_tag(); return tag_alloc<std::byte>{ledger_for_tag(t), t}; }
  friend int tag_invoke(get_custom_fn, const rref& x) noexcept { return x.r->custom(); }
};

struct dyn {
  std::shared_ptr<const node> n;
  template <template <class...> class V, template <class...> class T> using value_types = V<T<int>>;
  template <template <class...> class V> using error_types = V<std::exception_ptr>;
  static constexpr bool sends_done = true;
  // the canary makes a second destruction of the same operation state visible (a destroyed unique_ptr is null, so
  // destroying it again would otherwise be silent)
  struct op {
    std::unique_ptr<op_base> o; unsigned canary = 0x600D600Du;
    explicit op(std::unique_ptr<op_base> p) noexcept : o(std::move(p)) {}
    op(op&& x) noexcept : o(std::move(x.o)) {}
    ~op() {
      if (canary != 0x600D600Du) vmcrt::fail("C02", "op-destroyed-twice", "an operation state was destroyed twice (or never constructed)");
      canary = 0xDEADDEADu;
    }
    void start() noexcept { o->start(); }
  };
  // adapts whatever receiver a real adaptor gives us back to rcv_base, reading the queries it answers
  template <class R, bool HasValue = true>
  struct holder final : rcv_base, op_base {
    R rcv; std::unique_ptr<op_base> inner;
    explicit holder(R&& r) : rcv((R&&)r) {}
    void value(int v) noexcept override {
      if constexpr (!HasValue) { (void)v; vmcrt::fail("!", "harness", "a value was sent through a done-only sender"); }
      else if constexpr (std::is_invocable_v<unifex::tag_t<unifex::set_value>, R, int>) unifex::set_value(std::move(rcv), int(v));
      else if constexpr (std::is_invocable_v<unifex::tag_t<unifex::set_value>, R>) { (void)v; unifex::set_value(std::move(rcv)); }
      else { (void)v; vmcrt::fail("!", "harness", "a value was sent to a receiver that accepts none"); }
    }
    void error(std::exception_ptr e) noexcept override { unifex::set_error(std::move(rcv), std::move(e)); }
    void done() noexcept override { unifex::set_done(std::move(rcv)); }
    inplace_stop_token stok() const noexcept override {
      using tok_t = unifex::stop_token_type_t<R>;
      if constexpr (std::is_same_v<tok_t, inplace_stop_token>) return unifex::get_stop_token(rcv);
      else { static_assert(unifex::is_stop_never_possible_v<tok_t>, "exprgen: unexpected stop token type"); return inplace_stop_token{}; }
    }
    bool stop_possible() const noexcept override { return stok().stop_possible(); }
    int sched_tag() const noexcept override {
      if constexpr (std::is_invocable_v<unifex::tag_t<unifex::get_scheduler>, const R&>) {
        auto s = unifex::get_scheduler(rcv);
        if constexpr (std::is_same_v<decltype(s), tag_sched>) return s.tag; else return -2;
      } else return -1;
    }
    int alloc_tag() const noexcept override {
      auto a = unifex::get_allocator(rcv);
      if constexpr (std::is_same_v<std::decay_t<decltype(a)>, tag_alloc<std::byte>>) return a.tag; else return -1;
    }
    int custom() const noexcept override {
      if constexpr (std::is_invocable_v<get_custom_fn, const R&>) return get_custom(rcv); else return -1;
    }
    void start() noexcept override { inner->start(); }
  };
  // value category of the innermost erased connect in progress (leaf connect faults in the EX_NX build only fire when
  // the leaf itself is being connected as an lvalue, see leaf_node::connect)
  struct CatScope { bool save; explicit CatScope(bool lv) noexcept; ~CatScope(); };
  template <class R>
  friend op tag_invoke(unifex::tag_t<unifex::connect>, const dyn& d, R&& r) {
    CatScope cs(true);
    auto h = std::make_unique<holder<std::decay_t<R>>>((R&&)r);
    h->inner = d.n->connect(*h);
    return op{std::move(h)};
  }
  // In the EX_NX build ("exprnx" executable) connecting an rvalue dyn is declared noexcept while connecting an lvalue is
  // not - the profile of a sender that moves without throwing but whose copy may throw - so that every
  // `if constexpr (is_nothrow_connectable_v<...>)` branch of the adaptors is compiled the other way round.
  template <class R>
  friend op tag_invoke(unifex::tag_t<unifex::connect>, dyn&& d, R&& r) EX_RV_NOEXCEPT {
    CatScope cs(false);
    auto h = std::make_unique<holder<std::decay_t<R>>>((R&&)r);
    h->inner = d.n->connect(*h);
    return op{std::move(h)};
  }
};

// a sender that never completes with a value (stream cleanup())
struct ddone : dyn {
  template <template <class...> class V, template <class...> class T> using value_types = V<>;
  template <class R>
  friend dyn::op tag_invoke(unifex::tag_t<unifex::connect>, const ddone& d, R&& r) {
    auto h = std::make_unique<dyn::holder<std::decay_t<R>, false>>((R&&)r);
    h->inner = d.n->connect(*h);
    return dyn::op{std::move(h)};
  }
};

// wrap any real sender S (value int or void) as a node.  Default: every connect copies the sender and connects the copy
// as an rvalue.  With Ctx::lvalue_connect the node's own sender object is connected as a non-const lvalue every time, the
// way retry_when / repeat_effect_until / a user holding a sender in a variable do: a connect that steals from its sender
// (moves a member out of an lvalue) shows up at the second connect.
bool lvalue_connect_mode();
template <class S, bool LvalueOk = true>
struct snode final : node {
  mutable S s;
  explicit snode(S x) : s(std::move(x)) {}
  struct opimpl final : op_base {
    unifex::connect_result_t<S, rref> o;
    opimpl(const S& s, rcv_base& r) : o(unifex::connect(S(s), rref{&r})) {}
    void start() noexcept override { unifex::start(o); }
  };
  template <class SS>
  struct opimpl_lv_t final : op_base {
    unifex::connect_result_t<SS&, rref> o;
    opimpl_lv_t(SS& s, rcv_base& r) : o(unifex::connect(s, rref{&r})) {}
    void start() noexcept override { unifex::start(o); }
  };
  using opimpl_lv = opimpl_lv_t<S>;
  std::unique_ptr<op_base> connect(rcv_base& r) const override {
    if constexpr (LvalueOk) { if (lvalue_connect_mode()) return std::make_unique<opimpl_lv>(s, r); }
    return std::make_unique<opimpl>(s, r);
  }
};
template <class S>
dyn erase(S s) { return dyn{std::make_shared<snode<S>>(std::move(s))}; }
// for sender types whose lvalue connect does not compile (a compile-time limitation of the adaptor, not a property)
template <class S>
dyn erase_rv(S s) { return dyn{std::make_shared<snode<S, false>>(std::move(s))}; }
// for move-only senders: a factory that makes a fresh sender for every connect
template <class F>
struct fnode final : node {
  F f;
  explicit fnode(F x) : f(std::move(x)) {}
  using S = decltype(std::declval<const F&>()());
  struct opimpl final : op_base {
    unifex::connect_result_t<S, rref> o;
    opimpl(const F& f, rcv_base& r) : o(unifex::connect(f(), rref{&r})) {}
    void start() noexcept override { unifex::start(o); }
  };
  std::unique_ptr<op_base> connect(rcv_base& r) const override { return std::make_unique<opimpl>(f, r); }
};
template <class F>
dyn erase_factory(F f) { return dyn{std::make_shared<fnode<F>>(std::move(f))}; }

// ---- run context: leaf configuration, pending events, observations ---------------------------------------
enum class Mode { Inline, Deferred, Reactive };  // Reactive: deferred, but completes with done inside its stop callback
struct LeafInfo {
  int id = 0;
  bool configured = false;
  char outcome = 'V'; Mode mode = Mode::Inline;
  int starts = 0, completions = 0;
  bool stop_seen = false, stop_at_start = false;
  Seen seen;
  int ops_alive = 0, ops_made = 0, connects = 0;
  int order_started = -1;
  int start_ctx = -1;           // context tag of whoever called start() (first start)
};
struct Pending { int leaf; int sched_ctx; std::function<void()> fire; bool alive = true; };
struct Ctx {
  std::vector<LeafInfo> leaves;
  std::vector<Pending> pending;
  int start_seq = 0;
  bool defer_sched = false;     // schedule() operations become pending events
  bool lvalue_connect = false;  // erased nodes connect their sender as a non-const lvalue (see snode)
  bool lvalue_ctx = true;       // the innermost erased connect in progress is an lvalue connect
  bool sched_honours_stop = false;   // tag_sched::schedule() answers set_done when its receiver's stop token has been triggered (as manual_event_loop / inline_scheduler do)
  int rv_depth = 0;             // number of rvalue connects of erased nodes in progress (declared noexcept in the EX_NX build)
  int cur_ctx = 0;              // context tag of whoever is running right now (0 = driver / foreign)
  std::map<int, kit::AllocLedger> ledgers;
  int sched_ops_alive = 0;
  std::vector<Seen> sched_seen; // what each schedule() operation observed
  std::function<void(LeafInfo&)> configure;   // chooses outcome/mode on first start
  int throw_connect_leaf = -1, throw_connect_nth = 0;   // fault: the nth connect() of this leaf throws tagged_error{950+id}
  std::string trace;
  LeafInfo& leaf(int id) { if ((int)leaves.size() <= id) leaves.resize(id + 1); leaves[id].id = id; return leaves[id]; }
};

inline bool lvalue_connect_mode() { return g && g->lvalue_connect; }
inline dyn::CatScope::CatScope(bool lv) noexcept : save(g ? g->lvalue_ctx : true) { if (g) { g->lvalue_ctx = lv; if (!lv) ++g->rv_depth; } }
inline dyn::CatScope::~CatScope() { if (g) { if (!g->lvalue_ctx) --g->rv_depth; g->lvalue_ctx = save; } }
inline Seen observe(rcv_base& r) { return Seen{r.sched_tag(), r.alloc_tag(), r.custom(), r.stop_possible()}; }

// the probe leaf
struct leaf_node final : node {
  int id;
  explicit leaf_node(int i) : id(i) {}
  struct opimpl final : op_base {
    int id; rcv_base& r; bool done_ = false; bool started_ = false; int pend = -1;
    struct Cb { opimpl* self; void operator()() noexcept { self->on_stop(); } };
    std::optional<inplace_stop_token::callback_type<Cb>> cb;
    opimpl(int i, rcv_base& rr) : id(i), r(rr) { auto& L = g->leaf(id); ++L.ops_alive; ++L.ops_made; }
    ~opimpl() override {
      auto& L = g->leaf(id);
      --L.ops_alive;
      if (started_ && !done_) vmcrt::fail("C02,C01", "child-destroyed-early", ("leaf L" + std::to_string(id) + ": operation state destroyed before it completed").c_str());
    }
    void fire(char ch) noexcept {
      if (done_) vmcrt::fail("!", "harness", "leaf completed twice");
      done_ = true;
      cb.reset();
      auto& L = g->leaf(id);
      ++L.completions;
      g->trace += "c" + std::to_string(id) + ch + " ";
      if (ch == 'V') r.value(id + 1);
      else if (ch == 'D') r.done();
      else r.error(std::make_exception_ptr(kit::tagged_error{id + 1}));
    }
    void on_stop() noexcept {
      auto& L = g->leaf(id);
      L.stop_seen = true;
      if (L.mode == Mode::Reactive && !done_) {
        if (pend >= 0) g->pending[pend].alive = false;
        fire('D');
      }
    }
    void start() noexcept override {
      auto& L = g->leaf(id);
      if (!L.configured) { g->configure(L); L.configured = true; }
      int nth = L.starts++;
      started_ = true;
      if (L.order_started < 0) { L.order_started = g->start_seq++; L.start_ctx = g->cur_ctx; }
      L.seen = observe(r);
      g->trace += "s" + std::to_string(id) + " ";
      char ch = nth == 0 ? L.outcome : 'V';
      Mode m = nth == 0 ? L.mode : Mode::Inline;
      inplace_stop_token tok = r.stok();
      if (tok.stop_requested()) { L.stop_at_start = true; L.stop_seen = true; }
      if (m == Mode::Inline) { fire(ch); return; }
      if (m == Mode::Reactive && tok.stop_requested()) { fire('D'); return; }
      pend = (int)g->pending.size();
      g->pending.push_back(Pending{id, -1, [this, ch] { fire(ch); }, true});
      cb.emplace(tok, Cb{this});   // may complete us right here (Reactive) if stop is requested concurrently
    }
  };
  std::unique_ptr<op_base> connect(rcv_base& r) const override {
    auto& L = g->leaf(id);
    int nth = L.connects++;
    // (EX_NX: an rvalue connect of an erased node is declared noexcept there, so the leaf may only throw when it is connected
    // as an lvalue and no rvalue connect of an enclosing erased node is in progress)
    if (g->throw_connect_leaf == id && nth == g->throw_connect_nth && (!EX_NX || (g->lvalue_ctx && g->rv_depth == 0))) { g->trace += "x" + std::to_string(id) + " "; throw kit::tagged_error{950 + id}; }
    return std::make_unique<opimpl>(id, r);
  }
};
inline dyn leaf(int id) { return dyn{std::make_shared<leaf_node>(id)}; }

// schedule() of tag_sched: a recording leaf too
struct tag_sched::sender {
  int tag;
  template <template <class...> class V, template <class...> class T> using value_types = V<T<>>;
  template <template <class...> class V> using error_types = V<std::exception_ptr>;
  static constexpr bool sends_done = true;
  template <class R>
  struct op {
    int tag; R r; bool done_ = false;
    op(int t, R&& rr) : tag(t), r((R&&)rr) { ++g->sched_ops_alive; }
    op(op&&) = delete;
    ~op() { --g->sched_ops_alive; }
    void run() noexcept { done_ = true; int save = g->cur_ctx; g->cur_ctx = tag; unifex::set_value(std::move(r)); g->cur_ctx = save; }
    void start() noexcept {
      Seen s;
      if constexpr (std::is_invocable_v<unifex::tag_t<unifex::get_scheduler>, const R&>) {
        auto sc = unifex::get_scheduler(r);
        if constexpr (std::is_same_v<decltype(sc), tag_sched>) s.sched_tag = sc.tag; else s.sched_tag = -2;
      } else s.sched_tag = -1;
      {
        auto a = unifex::get_allocator(r);
        if constexpr (std::is_same_v<std::decay_t<decltype(a)>, tag_alloc<std::byte>>) s.alloc_tag = a.tag; else s.alloc_tag = -1;
      }
      if constexpr (std::is_invocable_v<get_custom_fn, const R&>) s.custom = get_custom(r); else s.custom = -1;
      s.stop_possible = unifex::get_stop_token(r).stop_possible();
      g->sched_seen.push_back(s);
      if (g->sched_honours_stop && unifex::get_stop_token(r).stop_requested()) { done_ = true; unifex::set_done(std::move(r)); return; }
      if (!g->defer_sched) { run(); return; }
      g->pending.push_back(Pending{-1, tag, [this] { run(); }, true});
    }
  };
  template <class R>
  op<std::decay_t<R>> connect(R&& r) const& { return op<std::decay_t<R>>{tag, (R&&)r}; }
};
inline tag_sched::sender tag_sched::schedule() const noexcept { return sender{tag}; }
}  // namespace ex
