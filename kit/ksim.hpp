// ksim — a small simulated Linux kernel for the descriptors io_epoll_context uses: epoll instances, eventfd, timerfd and
// pipes.  The library's syscalls reach it through link-time --wrap seams (see ksim.cpp); descriptors numbered from
// ksim::BASE upwards are simulated, every other descriptor goes to the real kernel.  Every simulated call is a
// scheduling point (K_KERNEL) on the object it touches, blocking calls block the logical thread in the scheduler, and
// time is the scheduler's virtual clock — so the explorer owns I/O readiness order, wake-ups and timer expiry.
//
// Semantics follow Linux for the cases the library can produce (checked against the real kernel by the ksim_conf
// harness): level-triggered epoll, EEXIST/ENOENT/EBADF from epoll_ctl, close() drops epoll registrations and the
// lowest free descriptor number is reused, non-blocking pipes with a byte capacity (EAGAIN when empty/full, 0 at EOF,
// EPIPE without reader, partial transfers), eventfd counter semantics, one-shot absolute timerfd.
#pragma once
#include <cstdint>
#include <string>
#include <vector>

namespace ksim {
constexpr int BASE = 100000;

enum Call : int { C_READV = 0, C_WRITEV, C_READ, C_WRITE, C_EPOLL_CTL, C_EPOLL_WAIT, C_TIMERFD_SETTIME, C_CLOSE, C_NCALLS };

struct Config {
  int pipe_capacity = 4;      // bytes
  // fault plan: the nth (0-based) call of kind fault_call on a simulated descriptor fails with fault_errno
  // (fault_sticky: every call from the nth on); -1 = none
  int fault_call = -1, fault_nth = 0, fault_errno = 0; bool fault_sticky = false;
  // short transfers: the nth readv/writev on a pipe moves at most one byte
  int short_call = -1, short_nth = 0;
  bool reverse_ready_order = false;   // epoll_wait reports ready descriptors in reverse registration order
  int uring_sq_entries = 0;           // io_uring: submission ring size the kernel reports (0 = as requested, capped at 16)
};

void reset(const Config& c = Config{});   // start of an execution: forget every descriptor
bool active();
// end of an execution: every descriptor opened must have been closed exactly once; returns a description of what
// is still open ("" if clean)
std::string leaks();
int open_count();
// number of epoll registrations on epoll instance `ep` (simulated fd) other than the ones on `keep` descriptors
int registrations(int ep);
std::string dump();
bool is_sim(int fd);
// any registration in any epoll instance whose data.ptr lies inside [p, p+n)
bool registration_points_into(const void* p, size_t n);
int calls(int call);   // how many calls of this kind hit simulated descriptors so far

// direct access for harness threads playing "the other side" (same semantics as the wrapped syscalls)
long k_read(int fd, void* buf, size_t n);
long k_write(int fd, const void* buf, size_t n);
int k_close(int fd);
int k_pipe2(int fds[2], int flags);
int pipe_bytes(int rfd);   // bytes currently buffered in the pipe whose read end is rfd

// ---- io_uring simulator (ksim_uring.cpp; only in executables that link it) ----
void uring_reset();
std::string uring_leaks();                 // regions still mapped, completion-queue overflow, ...
int uring_pending(int fd);                 // requests submitted and not yet completed
bool uring_request_points_into(const void* p, size_t n);   // a pending request's user_data or iovec lies in [p, p+n)
int k_open_file(const void* data, size_t n);                // in-memory regular file
std::string file_contents(int fd);
}  // namespace ksim
