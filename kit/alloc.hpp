// counting allocator: ledger of blocks handed out / returned, optional throw on the k-th allocation
#pragma once
#include <vmc_rt.hpp>
#include <cstddef>
#include <cstdlib>
#include <new>
namespace kit {
struct AllocLedger {
  int allocs = 0, frees = 0, live = 0;
  int throw_at = 0;          // 1-based index of the allocation that throws std::bad_alloc (0 = never)
  int tag = 0;
  const char* props = "C02";
};
template <class T>
struct counting_allocator {
  using value_type = T;
  AllocLedger* led = nullptr;
  counting_allocator() = default;
  explicit counting_allocator(AllocLedger* l) noexcept : led(l) {}
  template <class U> counting_allocator(const counting_allocator<U>& o) noexcept : led(o.led) {}
  T* allocate(std::size_t n) {
    if (led) {
      ++led->allocs;
      if (led->throw_at && led->allocs == led->throw_at) throw std::bad_alloc();
      ++led->live;
    }
    return static_cast<T*>(::operator new(n * sizeof(T), std::align_val_t(alignof(T))));
  }
  void deallocate(T* p, std::size_t n) noexcept {
    if (led) {
      ++led->frees; --led->live;
      if (led->live < 0) vmcrt::fail(led->props, "double-free", "a block was returned to the allocator more often than it was allocated");
    }
    ::operator delete(p, n * sizeof(T), std::align_val_t(alignof(T)));
  }
  template <class U> bool operator==(const counting_allocator<U>& o) const noexcept { return led == o.led; }
  template <class U> bool operator!=(const counting_allocator<U>& o) const noexcept { return led != o.led; }
};
}  // namespace kit
