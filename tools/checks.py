# property -> harness list. quick/thorough = preemption bound; sequential harnesses ignore the bound.
def H(exe, harness, quick=2, thorough=3, args=None, **kw):
    d = {"exe": exe, "harness": harness, "quick": quick, "thorough": thorough}
    if args is not None:
        d["args"] = list(args)
    d.update(kw)
    return d


C19_HARNESSES = [
    H("cancel", "canc_generic", 3, 4),
    H("cancel", "canc_generic", 3, 4, args=[0, 1]),
    H("cancel", "canc_generic", 3, 4, args=[0, 0, 1]),
    H("cancel", "canc_generic", 3, 4, args=[0, 0, 0, 1]),
    H("cancel", "canc_generic_early", 3, 4, args=[1, 0, 1]),
    H("cancel", "canc_generic_early", 3, 4, args=[1, 0, 0]),
    H("cancel", "canc_generic_early", 3, 4, args=[1, 0, 0, 1]),
    H("cancel", "canc_evt2", 2, 3),
    H("cancel", "canc_basic", 2, 3),
    H("cancel", "canc_detach", 3, 4, args=[0]),
    H("cancel", "canc_detach", 3, 4, args=[1]),
    H("cancel", "canc_detach", 3, 4, args=[2]),
    H("cancel", "canc_stoponreq", 3, 4, args=[0]),
    H("cancel", "canc_stoponreq", 3, 4, args=[1]),
    H("cancel", "canc_canary", 4, 6, args=[0]),
    H("cancel", "canc_canary", 4, 6, args=[1]),
]

# exprgen: depth-1 over the whole alphabet with one throwing callable, then depth 2 with one harness run per root kind
EXPR_D2_ROOTS = list(range(1, 29))   # 28 = repeat_effect_until (unary, re-connects its child as an lvalue)
EXPR_SEQ = [H("expr", "expr_d1")] + [H("expr", "expr_d2", args=[r, 0, 1], weight=(6 if r >= 18 else 1)) for r in EXPR_D2_ROOTS] + [H("expr", "expr_known_lvss")]
# lighter sweeps: without the Reactive leaf mode / without stop events (the full sweep runs under C04 and C05)
EXPR_SEQ_NR = [H("expr", "expr_d1")] + [H("expr", "expr_d2", args=[r, 0, 0], weight=(6 if r >= 18 else 1)) for r in EXPR_D2_ROOTS] + [H("expr", "expr_known_lvss")]
EXPR_SEQ_Q = [H("expr", "expr_d1")] + [H("expr", "expr_d2", args=[r, 0, 0, 0], weight=(3 if r >= 18 else 1)) for r in EXPR_D2_ROOTS]
# lvalue-connect mode: erased nodes connect their sender object as a non-const lvalue every time (a connect that steals
# from its sender shows at the second connect: retry_when / repeat_effect_until re-connect their source)
EXPR_LVALUE_Q = [H("expr", "expr_d1", args=[0, 1]), H("expr", "expr_d2", args=[27, 0, 0, 0, 0, 1], weight=2), H("expr", "expr_d2", args=[28, 0, 0, 0, 0, 1])]
EXPR_LVALUE_T = [H("expr", "expr_d2", args=[r, 0, 0, 0, 0, 1], weight=(3 if r >= 18 else 1), thorough_only=True) for r in EXPR_D2_ROOTS if r not in (27, 28)]
EXPR_SEQ_FAULTS = [H("expr", "expr_d2", args=[r, 1, 0], weight=(6 if r >= 18 else 1), thorough_only=True) for r in EXPR_D2_ROOTS]
# "exprnx": the same harness source compiled with rvalue connect of the erased sender declared noexcept (kit/expr.hpp
# EX_NX), so that the adaptors' `if constexpr (is_nothrow_connectable_v<...>)` branches are taken the other way round; a
# leaf's lvalue re-connect (retry_when / repeat_effect_until) may still throw
EXPR_NX_Q = [H("exprnx", "expr_cfault", args=[0]), H("exprnx", "expr_cfault", args=[27], weight=3), H("exprnx", "expr_cfault", args=[28]), H("exprnx", "expr_d1", args=[0, 0])]
EXPR_NX_T = [H("exprnx", "expr_cfault", args=[r], weight=(4 if r >= 18 else 1), thorough_only=True) for r in EXPR_D2_ROOTS if r not in (27, 28)] + [
    H("exprnx", "expr_d2", args=[r, 1, 0], weight=6, thorough_only=True) for r in EXPR_D2_ROOTS if r >= 18]

# connect-time faults (the n-th connect of one leaf throws) over the same trees, model-free exactly-once / no-leak oracle
EXPR_CFAULT = [H("expr", "expr_cfault", args=[r], weight=(4 if r >= 18 else 1)) for r in [0] + EXPR_D2_ROOTS]
RACES = [H("races", "race_compose", 2, 3, args=[k, oa, ob, ns]) for k in (0, 1, 2, 3) for (oa, ob, ns) in ((0, 0, 0), (1, 0, 0), (2, 1, 0), (0, 2, 0), (1, 2, 1))]
RACE_LVSS = [H("races", "race_lvss", 2, 3, args=[4, 0, 0], **{"max-failures": 60}), H("races", "race_lvss", 2, 3, args=[4, 1, 0], **{"max-failures": 60})]

# C18(b): the exprgen sweep contains any_sender_of as an adaptor at every position (differential against the same
# reference model as the unwrapped tree); sch_any covers any_scheduler; strm_seq covers type_erased_stream
CORO_RACE = [H("cororace", "coro_race_stop", 3, 4, args=list(a), **{"cache-bits": 24}) for a in ((0, 0, 0), (0, 1, 0), (0, 1, 1), (1, 0, 1), (1, 1, 1), (2, 1, 1), (2, 0, 0))] + [
    # the task's scheduler is an event loop run by two threads: completion of the task and the forwarded stop request on different threads
    H("cororace", "coro_race_stop", 2, 3, args=[0, 2, 0], weight=4, **{"cache-bits": 24}), H("cororace", "coro_race_stop", 2, 3, args=[1, 2, 1], thorough_only=True, **{"cache-bits": 24})]
CORO = [H("coro", "coro_return_throws")] + [H("coro", "coro_script", args=list(a)) for a in ((0, 0, 0), (0, 1, 0), (0, 0, 1), (0, 1, 1), (1, 0, 0), (1, 1, 0), (1, 0, 1))] + [
    H("coro", "coro_script", args=[2, 0, 0], thorough_only=True), H("coro", "coro_script", args=[1, 1, 1], thorough_only=True)]
# C20: the same enumerations in trace mode (every case's canonical observation trace is its outcome), run in every build
# configuration and compared; trace_chain checks async_trace / async-stack balance inside each configuration
ALL_CONFIGS = ["c17rel", "c17dbg", "c17relv", "c17dbgv", "c20rel", "c20dbg", "c20relv", "c20dbgv"]
C20_HARNESSES = [H("expr", "expr_d1", args=[1], diff=True)] + [
    H("expr", "expr_d2", args=[r, 0, 1, 1, 1], diff=True, weight=(6 if r >= 18 else 1), thorough_only=(r >= 18 and r not in (18, 20, 27))) for r in EXPR_D2_ROOTS] + [
    H("expr", "expr_d2", args=[r, 1, 0, 1, 1], diff=True, weight=3) for r in (3, 9, 14)] + [
    H("streams", "strm_seq", args=[a, 1], diff=True) for a in range(12)] + [
    H("coro", "coro_script", args=list(a) + [1], diff=True, cxx20=True) for a in ((0, 0, 0), (0, 1, 0), (0, 0, 1), (0, 1, 1), (1, 0, 0), (1, 1, 0), (1, 0, 1))] + [
    H("coro", "coro_script", args=[1, 1, 1, 1], diff=True, cxx20=True, thorough_only=True),
    H("coro", "coro_return_throws", cxx20=True),
    H("trace", "trace_chain"),
]
C14_EPOLL = [
    H("ioep", "ksim_conf", args=[4]), H("ioep", "ksim_conf", args=[5], thorough_only=True),
    H("ioep", "ep_sched", 3, 4, args=[2]), H("ioep", "ep_sched", 3, 4, args=[1]),
    H("ioep", "ep_stop", 3, 4),
] + [H("ioep", "ep_timer", 3, 4, args=[m]) for m in (0, 1, 2, 3, 4)] + [
    H("ioep", "ep_pipe", 3, 4, args=list(a)) for a in ((2, 3, 2, 0), (2, 3, 2, 1), (4, 2, 4, 2), (1, 2, 2, 0), (4, 4, 1, 0))] + [
    H("ioep", "ep_cancel", 2, 4, args=list(a), **{"cache-bits": 24}) for a in ((0, 2), (1, 2), (2, 2), (0, 0), (1, 0), (2, 0))] + [
    H("ioep", "ep_cancel_w", 2, 4, args=[m], **{"cache-bits": 24}) for m in (0, 1, 2)] + [
    H("ioep", "ep_reuse", 2, 4, args=[m], **{"cache-bits": 24}) for m in (0, 1)] + [
    H("ioep", "ep_fault", 2, 3, args=list(a)) for a in ((0, 0, 1, 5), (0, 0, 0, 5), (0, 1, 1, 5), (0, 1, 0, 5), (1, 0, 1, 5), (1, 0, 0, 5), (1, 1, 1, 5), (1, 1, 0, 5), (0, 0, 1, 9), (1, 0, 1, 32))]
C14_TIMER3 = [
    H("ioep", "ep_timer3", 1, 2, args=[1, 1], **{"cache-bits": 24}), H("iour", "ur_timer3", 1, 2, args=[1, 1], **{"cache-bits": 24}),
] + [H(e, h, 1, 2, args=list(a), thorough_only=True, weight=2, **{"cache-bits": 24}) for (e, h) in (("ioep", "ep_timer3"), ("iour", "ur_timer3")) for a in ((0, 0), (1, 0), (2, 0), (2, 1))]
C14_URING = [
    H("iour", "uring_conf", args=[3]), H("iour", "uring_conf", args=[4], thorough_only=True, weight=3),
    H("iour", "ur_sched", 3, 4, args=[2]), H("iour", "ur_sched", 3, 4, args=[1]),
    H("iour", "ur_stop", 3, 4),
] + [H("iour", "ur_timer", 3, 4, args=[m]) for m in (0, 1, 2, 3, 4)] + [
    H("iour", "ur_file", 3, 4, args=list(a)) for a in ((3, 4, 0), (3, 4, 1), (6, 4, 2), (1, 8, 0))] + [
    H("iour", "ur_cancel", 2, 4, args=list(a), **{"cache-bits": 24}) for a in ((0, 2), (1, 2), (2, 2), (0, 0), (1, 0), (2, 0))] + [
    H("iour", "ur_cancel_w", 2, 4, args=[m], **{"cache-bits": 24}) for m in (0, 1, 2)] + [
    H("iour", "ur_full", 2, 3, args=[3, 0], **{"cache-bits": 24}), H("iour", "ur_full", 2, 3, args=[3, 1], **{"cache-bits": 24}),
    H("iour", "ur_cq_budget", 1, 2), H("iour", "ur_cq_budget_feed", 2, 3, args=[5], **{"cache-bits": 24}),
    H("iour", "ur_fault", 2, 3, args=[0, 5]), H("iour", "ur_fault", 2, 3, args=[1, 5]), H("iour", "ur_fault", 2, 3, args=[0, 9]),
]
CHECKS = {
    "C14": {"harnesses": C14_EPOLL + C14_URING + C14_TIMER3, "deadline": {"quick": 900, "thorough": 4000}},
    "C20": {"harnesses": C20_HARNESSES, "configs": {"quick": ["c17rel", "c20dbg", "c17dbgv", "c20relv"], "thorough": ALL_CONFIGS},
            "header_matrix": True, "deadline": {"quick": 600, "thorough": 4500}},
    "C19": {"harnesses": C19_HARNESSES},
    "C10": {"harnesses": CORO + CORO_RACE, "deadline": {"quick": 420, "thorough": 2400}},
    "C11": {
        "harnesses": [
            H("traits", "traits_corpus"), H("traits", "ctx_throwing_value"),
            H("expr", "expr_ctx", args=[6]), H("expr", "expr_ctx", args=[7]),
            H("events", "evt_v1_ctx", 3, 4), H("events", "evt_v2_ctx", 3, 4), H("mutexh", "mtx_v2_loop", 3, 4),
            H("coro", "coro_script", args=[0, 1, 0]), H("coro", "coro_script", args=[0, 1, 1]), H("coro", "coro_script", args=[1, 1, 0]),
            H("coro", "coro_script", args=[1, 1, 1], thorough_only=True),
        ],
    },
    "C18": {
        "harnesses": [
            H("anyw", "any_storage"),
            H("anyw", "any_unique_seq", args=[3]), H("anyw", "any_object_seq", args=[3]), H("anyw", "any_object_nt_seq", args=[3]),
            H("anyw", "any_unique_seq", args=[4], thorough_only=True), H("anyw", "any_object_seq", args=[4], thorough_only=True),
            H("stop", "stop_adapter", 3, 5), H("sched", "sch_any", 3, 4),
            H("expr", "expr_d1"), H("expr", "expr_d2", args=[15, 0, 1]),
            H("streams", "strm_seq", args=[5]),
        ] + [H("expr", "expr_d2", args=[r, 0, 1], weight=4, thorough_only=True) for r in range(18, 28)],
    },
    "C07": {
        "harnesses": [H("timers", "tim_single", 2, 3, args=list(a)) for a in (
            (2, 3, 0, 0), (3, 2, 0, 0), (4, 2, 0, 0), (2, 4, 0, 0), (0, 1, 0, 0), (1, 0, 0, 0), (4, 4, 0, 0), (4, 2, 1, 0), (2, 2, 1, 0), (0, 4, 1, 0),
            (2, 3, 0, 1), (4, 2, 0, 1), (4, 4, 0, 1), (4, 2, 1, 1), (0, 1, 0, 1))] + [
            H("timers", "tim_three", 1, 2, args=[0, 0], **{"cache-bits": 24}), H("timers", "tim_three", 1, 2, args=[0, 2], **{"cache-bits": 24}),
            H("timers", "tim_three", 1, 2, args=[1, 0], **{"cache-bits": 24}), H("timers", "tim_three", 1, 2, args=[0, 1], thorough_only=True, **{"cache-bits": 24}),
            H("timers", "tim_unsafe", 0, 0),
            H("timers", "tim_clockmath"),
            H("sched", "sch_timed_plain", 2, 3),
        ] + C14_TIMER3[:2],
    },
    "C13": {"harnesses": [H("streams", "strm_seq", args=[a]) for a in range(12)] + [
                          # the schedulers of via_stream / typed_via_stream / on_stream answer done once stop was requested (as real ones do)
                          H("streams", "strm_seq", args=[a, 0, 1], thorough_only=(a not in (3, 6, 7, 11))) for a in range(12)] + [H("streams", "strm_sources"),
                          H("strmrace", "strm_race_stopimm", 3, 4, args=[0]), H("strmrace", "strm_race_stopimm", 3, 4, args=[1]),
                          H("strmrace", "strm_race_takeuntil", 3, 4, args=[0]), H("strmrace", "strm_race_takeuntil", 3, 4, args=[1]),
                          H("strmrace", "strm_race_takeuntil", 3, 4, args=[2])]},
    "C17": {
        "harnesses": [
            H("bulk", "bulk_findif", args=[0], **{"hang-timeout": 30}),
            H("bulk", "bulk_findif", args=[1], **{"hang-timeout": 30}),
            H("bulk", "bulk_sched"),
            H("bulk", "bulk_policy"),
        ],
    },
    "C01": {"harnesses": EXPR_SEQ_NR + [H("expr", "expr_d2", args=[r, 0, 1], weight=6, thorough_only=True) for r in EXPR_D2_ROOTS if r >= 18] + RACES + [
        H("cancel", "canc_generic", 2, 3), H("cancel", "canc_evt2", 2, 3), H("scopes", "scope_close_race", 2, 3, args=[0]),
        H("sched", "sch_loop", 2, 3), H("futures", "fut_v2", 2, 3, args=[0, 0]), H("timers", "tim_three", 1, 2, args=[0, 0], **{"cache-bits": 24})],
        "deadline": {"quick": 480, "thorough": 2400}},
    "C02": {"harnesses": [H("payload", "payload_adaptors")] + EXPR_CFAULT + EXPR_NX_Q + EXPR_SEQ_NR + EXPR_SEQ_FAULTS + RACES + RACE_LVSS + [
        H("futures", "fut_v2", 3, 4, args=[0, 0]), H("futures", "fut_v2", 3, 4, args=[1, 0]), H("futures", "fut_faults"),
        H("futures", "fut_payload_v2", 3, 4, args=[1], **{"cache-bits": 24}),
        H("cancel", "canc_detach", 3, 4, args=[0]), H("cancel", "canc_evt2", 2, 3), H("cancel", "canc_basic", 2, 3),
        H("scopes", "scope_v0", 3, 4, args=[0])],
        "deadline": {"quick": 480, "thorough": 3000}},
    "C04": {"harnesses": EXPR_SEQ + RACES + RACE_LVSS + [
        H("cancel", "canc_stoponreq", 3, 4, args=[0]), H("cancel", "canc_stoponreq", 3, 4, args=[1]),
        H("cancel", "canc_generic", 3, 4, args=[0, 0, 0, 1]), H("cancel", "canc_detach", 3, 4, args=[0]),
        H("futures", "fut_v2", 3, 4, args=[1, 0]), H("futures", "fut_v2", 3, 4, args=[0, 0]), H("futures", "fut_v2", 3, 4, args=[0, 2]),
        H("scopes", "scope_v1", 3, 4, args=[0, 2]), H("scopes", "scope_ops", args=[0, 5]), H("scopes", "scope_ops", args=[1, 5])],
        "deadline": {"quick": 480, "thorough": 2400}},
    "C05": {"harnesses": [H("payload", "payload_adaptors")] + EXPR_SEQ + EXPR_SEQ_FAULTS + EXPR_CFAULT + EXPR_NX_Q + EXPR_NX_T, "deadline": {"quick": 420, "thorough": 2400}},
    "C12": {"harnesses": EXPR_SEQ_Q + EXPR_LVALUE_Q + EXPR_LVALUE_T + [H("stop", "stop_adapter", 3, 5)] + [H("expr", "expr_d2", args=[r, 0, 1], weight=6, thorough_only=True) for r in EXPR_D2_ROOTS if r >= 18], "deadline": {"quick": 420, "thorough": 2400}},
    "C06": {
        "harnesses": [
            H("sched", "sch_loop", 3, 4),
            H("sched", "sch_loop_stop", 3, 5),
            H("sched", "sch_loop_token", 3, 5),
            H("sched", "sch_single", 3, 4),
            H("sched", "sch_pool", 3, 4, args=[1, 1]),
            H("sched", "sch_pool", 2, 3, args=[2, 1], **{"cache-bits": 24}),
            H("sched", "sch_pool", 1, 2, args=[2, 2], thorough_only=True, **{"cache-bits": 24}),
            H("sched", "sch_pool_stop", 3, 5), H("sched", "sch_pool_stop", 3, 5, args=[1, 1]), H("sched", "sch_pool_stop", 3, 4, args=[1, 2], **{"cache-bits": 24}),
            H("sched", "sch_newthread", 3, 4),
            H("sched", "sch_timed_plain", 2, 3),
            H("sched", "sch_fifo_many", 2, 3, args=[0]), H("sched", "sch_fifo_many", 2, 3, args=[1]),
            H("sched", "sch_tramp"),
            H("sched", "sch_any", 3, 4),
        ],
    },
    "C09": {
        "harnesses": [H("futures", "fut_v2", 3, 4, args=[m, o]) for m in (0, 1, 2) for o in (0, 1, 2)] + [
            H("futures", "fut_v1", 2, 3, args=[0, 0]),
            H("futures", "fut_v1", 2, 3, args=[0, 1]),
            H("futures", "fut_v1", 3, 4, args=[1, 0]),
            H("futures", "fut_v1", 3, 4, args=[2, 0]),
            H("futures", "fut_closed"),
            H("futures", "fut_payload_v2", 3, 4, args=[0]), H("futures", "fut_payload_v2", 3, 4, args=[1], **{"cache-bits": 24}),
            H("futures", "fut_payload_v1", 2, 3, args=[0], **{"cache-bits": 24}), H("futures", "fut_payload_v1", 3, 4, args=[1], **{"cache-bits": 24}),
            H("futures", "fut_ops", args=[5]), H("futures", "fut_ops", args=[6], thorough_only=True),
            H("futures", "fut_faults"),
            H("futures", "det_terminate"),
        ],
    },
    "C08": {
        "harnesses": [
            H("scopes", "scope_v2", 3, 4, args=[0]),
            H("scopes", "scope_v2", 3, 4, args=[1]),
            H("scopes", "scope_v2_unconsumed", 3, 5, args=[0]),
            H("scopes", "scope_v2_unconsumed", 3, 5, args=[1]),
            H("scopes", "scope_close_race", 2, 3, args=[0]),
            H("scopes", "scope_close_race", 2, 3, args=[1]),
        ] + [H("scopes", "scope_v1", 3, 4, args=[a, j]) for a in (0, 1) for j in (0, 1, 2)] + [
            H("scopes", "scope_v0", 3, 4, args=[0]),
            H("scopes", "scope_v0", 3, 4, args=[1]),
            H("scopes", "scope_ops", args=[0, 5]), H("scopes", "scope_ops", args=[1, 5]),
            H("scopes", "scope_ops", args=[0, 7], thorough_only=True), H("scopes", "scope_ops", args=[1, 7], thorough_only=True),
            H("futures", "fut_ops", args=[5]), H("futures", "fut_ops", args=[6], thorough_only=True),
        ],
    },
    "C16": {
        "harnesses": [
            H("events", "evt_v1", 3, 4),
            H("events", "evt_v2", 2, 3, **{"cache-bits": 24}),
            H("events", "evt_v1_setreset", 3, 5),
            H("events", "evt_v2_setreset", 3, 4),
            H("events", "evt_v1_ctx", 3, 4),
            H("events", "evt_v2_ctx", 3, 4),
            H("events", "evt_auto", 3, 4, args=[0]),
            H("events", "evt_auto", 3, 4, args=[1]),
            H("events", "pass_call_accept", 3, 4, args=[0]),
            H("events", "pass_call_accept", 3, 4, args=[1]),
            H("cancel", "canc_evt2", 2, 3),
            H("events", "evt_v2_ops", args=[6], **{"hang-timeout": 20, "max-failures": 20}), H("events", "evt_v1_ops", args=[6], **{"hang-timeout": 20, "max-failures": 20}),
            H("events", "evt_v2_ops", args=[7], thorough_only=True, **{"hang-timeout": 20, "max-failures": 20}), H("events", "evt_v1_ops", args=[7], thorough_only=True, **{"hang-timeout": 20, "max-failures": 20}),
        ],
    },
    "C15": {
        "harnesses": [
            H("mutexh", "mtx_v1", 3, 4),
            H("mutexh", "mtx_v2", 2, 3, args=[0], **{"cache-bits": 24}),
            H("mutexh", "mtx_v2", 3, 4, args=[1]),
            H("mutexh", "mtx_v2_loop", 3, 4),
            H("mutexh", "mtx_fifo_v2", 3, 4),
            H("mutexh", "mtx_fifo_v1", 3, 5),
            H("mutexh", "mtx_v2_ops", args=[7], **{"hang-timeout": 20, "max-failures": 20}), H("mutexh", "mtx_v2_ops", args=[8], thorough_only=True, **{"hang-timeout": 20, "max-failures": 20}),
        ],
    },
    "C03": {
        "harnesses": [
            H("stop", "stop_req2_cb", 3, 4),
            H("stop", "stop_reg2_req", 3, 4),
            H("stop", "stop_reentrant", 3, 5, args=[0]),
            H("stop", "stop_reentrant", 3, 5, args=[1]),
            H("stop", "stop_reentrant", 3, 5, args=[2]),
            H("stop", "stop_dtor_vs_exec", 3, 5),
            H("stop", "stop_fused", 3, 4),
            H("stop", "stop_adapter", 3, 5),
        ],
    },
}

# ---- ThreadSanitizer pass ---------------------------------------------------------------------------------------------
# Every threaded harness of a property is run a second time in the tsan flavour (clang 14, library + hook layer
# instrumented, harness monitors not) at a lower preemption bound: a data race in the library on any explored schedule is a
# violation.  This is what sees a memory order weakened below what the algorithm needs when the interleaving itself stays
# correct under sequential consistency.
SEQUENTIAL = {"scope_ops", "mtx_v2_ops", "evt_v2_ops", "evt_v1_ops", "fut_closed", "fut_faults", "det_terminate", "fut_ops", "sch_tramp", "tim_unsafe", "tim_clockmath", "ksim_conf", "uring_conf",
              "bulk_findif", "bulk_sched", "bulk_policy", "expr_d1", "expr_d2", "expr_cfault", "expr_known_lvss", "expr_ctx", "payload_adaptors", "traits_corpus",
              "ctx_throwing_value", "strm_seq", "strm_sources", "coro_script", "coro_return_throws", "trace_chain", "any_storage", "any_unique_seq",
              "any_object_seq", "any_object_nt_seq"}
TSAN_EXES = {"stop", "cancel", "mutexh", "events", "scopes", "futures", "sched", "races", "timers", "strmrace", "cororace", "ioep", "iour"}


def tsan_items(items, q=1, t=2):
    out, seen = [], set()
    for h in items:
        if h["exe"] not in TSAN_EXES or h["harness"] in SEQUENTIAL or h.get("flavour") == "tsan":
            continue
        key = (h["exe"], h["harness"], tuple(h.get("args", [])))
        if key in seen:
            continue
        seen.add(key)
        d = dict(h)
        d.update({"flavour": "tsan", "quick": min(h.get("quick", 2), q), "thorough": min(h.get("thorough", 3), t), "weight": 0.4 * h.get("weight", 1.0)})
        if h["harness"] in ("tim_three", "ep_timer3", "ur_timer3"):
            d["thorough_only"] = True   # (does not finish bound 0 inside a quick share under ThreadSanitizer)
        out.append(d)
    return out


# ---- store-buffer (x86-TSO) pass --------------------------------------------------------------------------------------
# The same threaded harnesses once more with --tso: a non-seq_cst store may stay in its thread's store buffer (one unit of
# the budget per delayed store), so that code which needs a seq_cst fence / store between a store and a later load (Dekker
# patterns: v2::async_mutex unlock vs. lock, event set vs. wait ...) is explored with the store->load reordering the
# hardware really performs.  Sequentially consistent exploration can never see a removed fence.
TSO_EXES = TSAN_EXES


TSO_SKIP = {"race_lvss", "canc_basic", "expr_known_lvss", "ur_cq_budget"}   # demonstrate recorded findings: nothing to add in store-buffer mode
TSO_THOROUGH_ONLY = {"race_compose", "sch_pool", "ep_pipe", "ep_cancel_w", "ep_reuse", "ep_fault", "ur_file", "ur_cancel_w", "ur_full", "ur_fault", "ur_cq_budget_feed"}
TSO_QUICK_PROPS = {"C03", "C06", "C07", "C08", "C09", "C10", "C13", "C14", "C15", "C16", "C19"}


def tso_items(items, prop, q=2, t=3):
    out, seen = [], set()
    for h in items:
        if h["exe"] not in TSO_EXES or h["harness"] in SEQUENTIAL or h.get("flavour") == "tsan" or h.get("tso") or h["harness"] in TSO_SKIP:
            continue
        key = (h["exe"], h["harness"], tuple(h.get("args", [])))
        if key in seen:
            continue
        seen.add(key)
        d = dict(h)
        d.update({"tso": True, "quick": min(h.get("quick", 2), q), "thorough": min(h.get("thorough", 3), t), "weight": 0.5 * min(2.0, h.get("weight", 1.0))})
        d.setdefault("cache-bits", 24)
        if prop not in TSO_QUICK_PROPS or h["harness"] in TSO_THOROUGH_ONLY or (h["harness"] == "tim_three" and h.get("args") != [0, 0]):
            d["thorough_only"] = True
        out.append(d)
    return out


# ---- spurious wake-ups ---------------------------------------------------------------------------------------------------
# Harnesses whose library code waits on a condition variable (manual_event_loop, timed_single_thread_context,
# static_thread_pool, new_thread_context) once more with --spurious: a wait may return without a notification.
SPURIOUS_HARNESSES = {"sch_fifo_many", "sch_loop", "sch_loop_stop", "sch_loop_token", "sch_single", "sch_pool", "sch_pool_stop", "sch_newthread", "sch_timed_plain",
                      "tim_single", "tim_three"}


def spurious_items(items, q=2, t=3):
    out, seen = [], set()
    for h in items:
        if h["harness"] not in SPURIOUS_HARNESSES or h.get("flavour") == "tsan" or h.get("tso") or h.get("spurious"):
            continue
        key = (h["exe"], h["harness"], tuple(h.get("args", [])))
        if key in seen:
            continue
        seen.add(key)
        d = dict(h)
        d.update({"spurious": True, "quick": min(h.get("quick", 2), q), "thorough": min(h.get("thorough", 3), t), "weight": 0.5})
        d.setdefault("cache-bits", 24)
        if h["harness"] in ("tim_three",) or (h["harness"] == "tim_single" and h.get("args") not in ([2, 3, 0, 0], [4, 4, 0, 0], [4, 2, 1, 1])) or (h["harness"] == "sch_pool" and h.get("args") != [1, 1]):
            d["thorough_only"] = True
        out.append(d)
    return out


for _p, _spec in CHECKS.items():
    if _p == "C20":
        continue
    _base = _spec["harnesses"]
    if _p in ("C06", "C07"):
        _base = _base + spurious_items(_base)
    _spec["harnesses"] = _base + tsan_items([h for h in _base if not h.get("spurious")]) + tso_items([h for h in _base if not h.get("spurious")], _p)

