#!/usr/bin/env python3
"""vbuild — builds harness executables from /repo's *current working tree*.

Every object is keyed by a SHA-256 over the command line and the contents of every file the TU depended
on the last time it was compiled (from -MMD), never by mtimes: an edited header always rebuilds, an
unchanged one never does.  Output lives under /verif/build/<flavour>/.
"""
import concurrent.futures as cf
import hashlib
import json
import os
import subprocess
import sys
import threading

VERIF = os.path.dirname(os.path.dirname(os.path.abspath(__file__)))
REPO = os.environ.get("VERIF_REPO", "/repo")
BUILD = os.environ.get("VERIF_BUILD") or os.path.join(VERIF, "build")   # (VERIF_BUILD / VERIF_REPO: seeded-change runs against a scratch worktree)
JOBS = int(os.environ.get("VERIF_JOBS", "16"))

LIB_SOURCES = [
    "source/atomic_intrusive_list.cpp", "source/async_auto_reset_event.cpp", "source/async_manual_reset_event_v1.cpp",
    "source/async_manual_reset_event_v2.cpp", "source/async_mutex_v1.cpp", "source/async_mutex_v2.cpp",
    "source/async_pass.cpp", "source/async_stack.cpp", "source/exception.cpp", "source/inplace_stop_token.cpp",
    "source/manual_event_loop.cpp", "source/static_thread_pool.cpp", "source/task.cpp",
    "source/thread_unsafe_event_loop.cpp", "source/timed_single_thread_context.cpp", "source/trampoline_scheduler.cpp",
    "source/linux/mmap_region.cpp", "source/linux/monotonic_clock.cpp", "source/linux/safe_file_descriptor.cpp",
    "source/linux/io_epoll_context.cpp", "source/linux/io_uring_context.cpp", "source/linux/io_uring_syscall.cpp",
]
ENGINE_SOURCES = ["engine/vmc_rt.cpp", "engine/vmc_explore.cpp"]

# flavour -> (compiler, flags for instrumented TUs, link flags)
FLAVOURS = {
    "asan": ("g++", ["-fsanitize=address", "-fno-omit-frame-pointer"], ["-fsanitize=address"]),
    # clang: only it has -fsanitize-ignorelist (harness monitors must stay uninstrumented).  Its runtime is static and
    # keeps per-thread state in the executable's TLS block, so the scheduler does not pool/reset OS threads in this flavour
    "tsan": ("clang++", ["-fsanitize=thread", "-fno-omit-frame-pointer", "-fsized-deallocation",
                         "-fsanitize-ignorelist=" + os.path.join(VERIF, "engine/tsan_ignore.txt")],
             ["-fsanitize=thread"]),
    "plain": ("g++", [], []),
}
# configuration -> defines (C20's matrix); "verif" is the default exploring configuration
CONFIGS = {
    "verif": ["-std=c++20", "-DUNIFEX_NO_ASYNC_STACKS=1", "-DUNIFEX_LOG_DANGLING_STOP_CALLBACKS=0"],
    "c17rel": ["-std=c++17", "-DNDEBUG"],
    "c17dbg": ["-std=c++17"],
    "c20rel": ["-std=c++20", "-DNDEBUG"],
    "c20dbg": ["-std=c++20"],
    "c17relv": ["-std=c++17", "-DNDEBUG", "-DUNIFEX_ENABLE_CONTINUATION_VISITATIONS=1"],
    "c17dbgv": ["-std=c++17", "-DUNIFEX_ENABLE_CONTINUATION_VISITATIONS=1"],
    "c20relv": ["-std=c++20", "-DNDEBUG", "-DUNIFEX_ENABLE_CONTINUATION_VISITATIONS=1"],
    "c20dbgv": ["-std=c++20", "-DUNIFEX_ENABLE_CONTINUATION_VISITATIONS=1"],
}
COMMON = ["-O1", "-g1", "-pthread", "-DUNIFEX_VERIF=1", "-Wno-deprecated-declarations", "-w",
          "-I" + os.path.join(REPO, "include"), "-I" + os.path.join(VERIF, "engine"), "-I" + os.path.join(VERIF, "kit"),
          "-I" + os.path.join(REPO, "source")]

_print_lock = threading.Lock()


def log(msg):
    with _print_lock:
        sys.stderr.write(msg + "\n")
        sys.stderr.flush()


def sha_file(path, cache={}):
    try:
        st = os.stat(path)
    except OSError:
        return "missing"
    key = (path, st.st_mtime_ns, st.st_size)
    if key in cache:
        return cache[key]
    h = hashlib.sha256()
    with open(path, "rb") as f:
        h.update(f.read())
    cache[key] = h.hexdigest()
    return cache[key]


def parse_deps(dfile):
    try:
        txt = open(dfile).read()
    except OSError:
        return None
    txt = txt.replace("\\\n", " ")
    if ":" not in txt:
        return None
    deps = txt.split(":", 1)[1].split()
    return [d for d in deps if not d.startswith("/usr/")]


def stamp_for(cmd, deps):
    h = hashlib.sha256()
    h.update(" ".join(cmd).encode())
    for d in sorted(set(deps)):
        h.update(d.encode())
        h.update(sha_file(d).encode())
    return h.hexdigest()


def compile_obj(src, obj, cmd_base):
    """returns (obj, rebuilt, error)"""
    os.makedirs(os.path.dirname(obj), exist_ok=True)
    dfile = obj + ".d"
    sfile = obj + ".stamp"
    cmd = cmd_base + ["-MMD", "-MF", dfile, "-c", src, "-o", obj]
    deps = parse_deps(dfile)
    if deps is not None and os.path.exists(obj) and os.path.exists(sfile):
        if open(sfile).read() == stamp_for(cmd_base + [src], deps):
            return obj, False, None
    p = subprocess.run(cmd, stdout=subprocess.PIPE, stderr=subprocess.STDOUT, text=True)
    if p.returncode != 0:
        try:
            os.unlink(sfile)
        except OSError:
            pass
        return obj, True, "compile failed: %s\n%s" % (src, p.stdout[-6000:])
    deps = parse_deps(dfile) or [src]
    with open(sfile, "w") as f:
        f.write(stamp_for(cmd_base + [src], deps))
    return obj, True, None


class Builder:
    def __init__(self, flavour="asan", config="verif"):
        self.flavour = flavour
        self.config = config
        self.cxx, self.iflags, self.lflags = FLAVOURS[flavour]
        self.root = os.path.join(BUILD, flavour + "-" + config)
        self.pool = cf.ThreadPoolExecutor(JOBS)

    def inst_cmd(self, extra=()):
        return [self.cxx] + CONFIGS[self.config] + COMMON + self.iflags + ["-include", os.path.join(VERIF, "engine/prelude.hpp")] + list(extra)

    def engine_cmd(self):
        return [self.cxx, "-std=c++20", "-O2", "-g1", "-pthread", "-I" + os.path.join(VERIF, "engine")]

    def jobs_for(self, exes):
        """exes: list of dict(name, sources=[...], lib=bool|list, wraps=[...], defs=[...], skip_lib=[...])"""
        jobs = {}
        for s in ENGINE_SOURCES:
            obj = os.path.join(BUILD, "engine-" + self.cxx, os.path.basename(s) + ".o")
            jobs[obj] = (os.path.join(VERIF, s), obj, self.engine_cmd())
        for s in LIB_SOURCES:
            obj = os.path.join(self.root, "lib", s.replace("/", "_") + ".o")
            jobs[obj] = (os.path.join(REPO, s), obj, self.inst_cmd())
        for e in exes:
            for s in e["sources"]:
                obj = self.harness_obj(e, s)
                jobs[obj] = (os.path.join(VERIF, s), obj, self.inst_cmd(e.get("defs", [])))
        return jobs

    def harness_obj(self, e, s):
        tag = hashlib.sha256(" ".join(e.get("defs", [])).encode()).hexdigest()[:8] if e.get("defs") else "0"
        return os.path.join(self.root, "h", s.replace("/", "_") + "." + tag + ".o")

    def build(self, exes):
        jobs = self.jobs_for(exes)
        futs = [self.pool.submit(compile_obj, *j) for j in jobs.values()]
        errors = []
        rebuilt = set()
        for f in cf.as_completed(futs):
            obj, rb, err = f.result()
            if rb:
                rebuilt.add(obj)
            if err:
                errors.append(err)
        if errors:
            return errors
        # link
        lib_objs = {s: os.path.join(self.root, "lib", s.replace("/", "_") + ".o") for s in LIB_SOURCES}
        eng_objs = [os.path.join(BUILD, "engine-" + self.cxx, os.path.basename(s) + ".o") for s in ENGINE_SOURCES]

        def link(e):
            exe = os.path.join(self.root, "bin", e["name"])
            os.makedirs(os.path.dirname(exe), exist_ok=True)
            objs = [self.harness_obj(e, s) for s in e["sources"]]
            libs = [o for s, o in lib_objs.items() if s not in e.get("skip_lib", [])]
            allobjs = objs + libs + eng_objs
            if os.path.exists(exe) and not (set(allobjs) & rebuilt) and os.path.getmtime(exe) >= max(os.path.getmtime(o) for o in allobjs):
                return None
            cmd = [self.cxx, "-pthread"] + self.lflags + ["-o", exe] + allobjs
            for w in e.get("wraps", []):
                cmd.append("-Wl,--wrap=" + w)
            p = subprocess.run(cmd, stdout=subprocess.PIPE, stderr=subprocess.STDOUT, text=True)
            if p.returncode != 0:
                return "link failed: %s\n%s" % (e["name"], p.stdout[-4000:])
            return None
        for err in self.pool.map(link, exes):
            if err:
                errors.append(err)
        return errors

    def exe(self, name):
        return os.path.join(self.root, "bin", name)


if __name__ == "__main__":
    sys.path.insert(0, os.path.dirname(os.path.abspath(__file__)))
    import targets
    names = sys.argv[1:]
    exes = [e for e in targets.EXES if not names or e["name"] in names]
    b = Builder()
    errs = b.build(exes)
    for e in errs:
        print(e)
    sys.exit(1 if errs else 0)
