#!/usr/bin/env python3
"""setup: build the engine and every harness executable, then run the engine self-test (litmus programs
with known outcome sets and schedule counts). A failure here is an engine error and blocks every check."""
import json, os, subprocess, sys
HERE = os.path.dirname(os.path.abspath(__file__))
sys.path.insert(0, HERE)
import targets, vbuild, check
VERIF = os.path.dirname(HERE)


def run(b, harness, bound, extra=(), frm=None):
    out = os.path.join(VERIF, "build", "run", "litmus.json")
    os.makedirs(os.path.dirname(out), exist_ok=True)
    cmd = [b.exe("litmus"), "--run", harness, "--bound", str(bound), "--workers", "4", "--out", out,
           "--stderr-dir", os.path.join(VERIF, "build", "run")] + list(extra)
    if frm is not None:
        cmd += ["--from-bound", str(frm)]
    p = subprocess.run(cmd, env=check.ENV, stdout=subprocess.PIPE, stderr=subprocess.PIPE, text=True)
    if p.returncode not in (0, 1):
        raise SystemExit("litmus %s: explorer exited %d\n%s" % (harness, p.returncode, p.stderr[-2000:]))
    return json.load(open(out))


def expect(cond, what):
    if not cond:
        raise SystemExit("ENGINE SELF-TEST FAILED: " + what)
    print("  ok: " + what)


def main():
    b = vbuild.Builder("asan", "verif")
    errs = b.build(targets.EXES)
    if errs:
        print("\n".join(errs))
        raise SystemExit(2)
    print("built %d executables" % len(targets.EXES))
    r = run(b, "litmus_sb", 2)
    expect(not r["failures"] and set(r["outcomes"]) == {"r0=0 r1=1 ", "r0=1 r1=0 ", "r0=1 r1=1 "}, "SB: exactly the three SC outcomes")
    r = run(b, "litmus_mp", 2)
    expect(not r["failures"] and set(r["outcomes"]) == {"seen ", "notseen "}, "MP: both outcomes, no stale data")
    r = run(b, "litmus_lost_update", 2)
    expect([f["key"] for f in r["failures"]] == ["lost-update"] and r["failures"][0]["bound"] == 1, "lost update found at p<=1")
    r = run(b, "litmus_lost_wakeup", 2)
    expect([f["key"] for f in r["failures"]] == ["deadlock"], "textbook lost wake-up found as deadlock")
    r = run(b, "litmus_monitor", 3)
    expect(not r["failures"] and r["exhaustive"], "correct monitor passes at p<=3")
    r = run(b, "litmus_lock_inversion", 2)
    expect([f["key"] for f in r["failures"]] == ["deadlock"] and r["failures"][0]["bound"] == 1, "lock-order inversion found at p<=1")
    r = run(b, "litmus_spin", 2)
    expect(not r["failures"], "spin loop recognised as waiting")
    r = run(b, "litmus_timed", 2)
    expect(not r["failures"], "timed wait on the virtual clock")
    r = run(b, "litmus_choose", 0)
    expect(r["bounds"][0]["executions"] == 6 and len(r["outcomes"]) == 6, "data choices: 3*2 executions")
    r = run(b, "litmus_uaf", 1)
    expect(any(f["key"].startswith("asan:heap-use-after-free") for f in r["failures"]), "ASan crash contained and attributed")
    import math
    for m, n in ((2, 2), (3, 3), (4, 3)):
        r = run(b, "litmus_count", 30, ["--args", "%d,%d" % (m, n), "--no-cache"], frm=30)
        expect(r["bounds"][0]["executions"] == math.comb(m + n + 3, m + 1), "closed-form schedule count C(%d,%d)" % (m + n + 3, m + 1))
    r = run(b, "litmus_count", 2, ["--args", "3,3", "--no-cache"])
    expect([x["executions"] for x in r["bounds"]] == [1, 5, 21], "preemption-bounded counts 1,5,21 for bounds 0,1,2")
    # store-buffer mode (--tso): x86-TSO outcomes appear with it and only with it; fences and store order are respected
    r = run(b, "litmus_sb_rel", 2)
    expect(not r["failures"] and "r0=0 r1=0 " not in r["outcomes"], "SB(release/acquire) without --tso: no 0/0")
    r = run(b, "litmus_sb_rel", 2, ["--tso"])
    expect(not r["failures"] and set(r["outcomes"]) == {"r0=0 r1=0 ", "r0=0 r1=1 ", "r0=1 r1=0 ", "r0=1 r1=1 "}, "SB(release/acquire) with --tso: 0/0 reachable at budget 2")
    r = run(b, "litmus_sb_rel", 1, ["--tso"])
    expect("r0=0 r1=0 " not in r["outcomes"], "SB 0/0 needs a buffered store AND a preemption (not reachable at budget 1)")
    r = run(b, "litmus_sb_fence", 3, ["--tso"])
    expect(not r["failures"] and "r0=0 r1=0 " not in r["outcomes"], "SB with seq_cst fences: no 0/0 even with --tso")
    r = run(b, "litmus_dekker_rmw", 2, ["--tso"])
    expect([f["key"] for f in r["failures"]] == ["lost-waiter"] and r["failures"][0]["bound"] == 2, "unlock-store / lock-exchange without fence: lost waiter found with --tso")
    r = run(b, "litmus_dekker_rmw", 3)
    expect(not r["failures"], "the same program is clean under sequential consistency")
    r = run(b, "litmus_dekker_rmw", 3, ["--tso", "--args", "1"])
    expect(not r["failures"], "with the seq_cst fence it is clean with --tso")
    r = run(b, "litmus_mp_tso", 3, ["--tso"])
    expect(not r["failures"] and set(r["outcomes"]) == {"seen ", "notseen "}, "message passing intact with --tso (stores drain in order)")
    r = run(b, "litmus_tso_spin", 2, ["--tso"])
    expect(not r["failures"], "a buffered store reaches a spinning reader (buffers drain)")
    r = run(b, "litmus_spurious", 2)
    expect(not r["failures"], "if(!flag) wait: clean while waits never return spuriously")
    r = run(b, "litmus_spurious", 2, ["--spurious"])
    expect([f["key"] for f in r["failures"]] == ["woke-unset"], "if(!flag) wait: found with --spurious")
    r = run(b, "litmus_spurious", 3, ["--spurious", "--args", "1"])
    expect(not r["failures"], "while(!flag) wait: clean with --spurious")
    # replay determinism
    p = subprocess.run([b.exe("litmus"), "--replay", "litmus_lost_update", "--choices", "0,1,0,0", "--stderr-dir", os.path.join(VERIF, "build", "run")],
                       env=check.ENV, stdout=subprocess.PIPE, stderr=subprocess.PIPE, text=True)
    expect(p.returncode == 1 and "nondeterministic" not in p.stdout, "failing schedule replays deterministically")
    print("engine self-test passed")


if __name__ == "__main__":
    main()
