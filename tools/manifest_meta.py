HOOK_COMMITS = []
NOTES = ("All verdicts come from exhaustive enumeration of bounded spaces of executions of the real library code "
         "(thread interleavings up to a preemption bound, data/event choices, fault positions); see DESIGN.md.")
DEFAULT_NOTE = ("Holds for the harness programs listed in the evidence file, all schedules up to the stated preemption bound, "
                "sequentially consistent interleavings of the hooked operations, g++ 12 -O1 with AddressSanitizer; trusted: the vmc "
                "scheduler model (self-tested by litmus programs in setup), the harness monitors, ASan.")
NOT_YET = {}
META = {
    "C03": {
        "text": "Every interleaving (up to the preemption bound) of request_stop callers, registering/deregistering threads and "
                "re-entrant callbacks on the real inplace_stop_source / fused_stop_source / inplace_stop_token_adapter is executed; "
                "a sequential specification of 'ran exactly once iff requested while registered, never after deregistration returned, "
                "exactly one first requester' is evaluated on each, with ASan watching the popped-but-not-executed window and the "
                "scheduler detecting deadlock/livelock in self-deregistration.",
        "technique": "stateless model checking (preemption-bounded exhaustive interleaving exploration of the real code, HB-prefix caching)",
    },
}
