HOOK_COMMITS = []
NOTES = ("All verdicts come from exhaustive enumeration of bounded spaces of executions of the real library code "
         "(thread interleavings up to a preemption bound, data/event choices, fault positions); see DESIGN.md.")
DEFAULT_NOTE = ("Holds for the harness programs listed in the evidence file, all schedules up to the stated preemption bound, "
                "sequentially consistent interleavings of the hooked operations, g++ 12 -O1 with AddressSanitizer; trusted: the vmc "
                "scheduler model (self-tested by litmus programs in setup), the harness monitors, ASan.")
NOT_YET = {}
META = {
    "C03": {
        "text": "Every interleaving (up to the preemption bound) of request_stop callers, registering/deregistering threads and "
                "re-entrant callbacks on the real inplace_stop_source / fused_stop_source / inplace_stop_token_adapter is executed; "
                "a sequential specification of 'ran exactly once iff requested while registered, never after deregistration returned, "
                "exactly one first requester' is evaluated on each, with ASan watching the popped-but-not-executed window and the "
                "scheduler detecting deadlock/livelock in self-deregistration.",
        "technique": "stateless model checking (preemption-bounded exhaustive interleaving exploration of the real code, HB-prefix caching)",
    },
    "C20": {
        "text": "The exhaustive enumerations of exprgen (every depth-1 and depth-2 sender tree over the adaptor alphabet x leaf modes x "
                "stop events x fault positions), of the stream pipelines and of the coroutine scripts are re-run in trace mode in each "
                "build configuration {C++17,C++20} x {NDEBUG, debug+async stacks} x {continuation visitation 0,1}; each execution's "
                "canonical observation trace (events, completion channel, value, completion context, order) is its outcome and the "
                "multiset of outcomes is compared across configurations by digest and, on mismatch, entry by entry. Inside each "
                "configuration trace_chain enumerates every pair of visitation-forwarding adaptors (and task<> nestings) around "
                "async_trace_sender and checks the trace is a tree that reaches the root receiver, and that the thread's AsyncStackRoot "
                "is restored after every case; a header matrix checks every public header still compiles in every configuration.",
        "technique": "exhaustive bounded enumeration of operation sequences on the real code, differential across all build configurations "
                     "(stateless model checking, sequential harnesses; digest comparison of complete outcome multisets)",
        "note": "Sequential (single-threaded) harnesses only: the configuration switches select code, not schedules. quick = 4 of the 8 "
                "configurations and 20 of 27 depth-2 roots; thorough = all 8 configurations and all roots. The header matrix is a compile check, "
                "not an exploration; it is a precondition for the comparison, reported separately in the evidence.",
    },
    "C14": {
        "text": "io_epoll_context and io_uring_context run unmodified over a simulated kernel (kit/ksim: epoll, eventfd, timerfd, byte-capacity pipes, "
                "in-memory files, an io_uring ring simulator serving io_uring_setup/enter and the three mmap regions, virtual clock) reached through link-time --wrap seams, so readiness order, wake-ups, timer expiry, short transfers and "
                "failing syscalls are all scheduler choices.  Every interleaving up to the preemption bound of the I/O thread with remote "
                "producers, stop requesters and the other end of the pipe is executed for: remote scheduling vs the idle/wake-up protocol, "
                "run(stop_token), timers cancelled remotely / locally / at the due time, pipe reads and writes of all size relations, "
                "cancellation before start / while parked / racing readiness followed by re-use of the descriptor, descriptor-number reuse, "
                "and injected errno on the n-th readv/writev.  Operations and buffers live on the heap and are freed at completion (ASan + "
                "a direct check that no epoll registration points into a completed operation); descriptors must be closed exactly once.  "
                "The simulated kernel is itself checked against the real kernel on every operation sequence up to depth 5 (ksim_conf).",
        "technique": "stateless model checking of the implementation (preemption-bounded exhaustive schedule enumeration) over a simulated kernel "
                     "bound to the real one by an exhaustive conformance enumeration",
        "note": "io_uring: ring sizes are a parameter of the simulator (4 / 2 entries instead of 256) so that queue-full and completion-budget paths are reachable; "
                "one known finding (cancellation starved when in-flight operations fill the completion queue) is listed in KNOWN_FINDINGS.txt.  Pipe capacity is counted in bytes (the real kernel counts page slots); "
                "conformance is established for whole-page transfers.  Two concurrent operations of the same kind on one descriptor are not "
                "driven (the context documents one registration per descriptor).",
    },
    'C01': {
        "text": "Every sender tree of depth <=2 over 27 adaptors x leaf modes (inline / deferred / completing from inside its stop callback) x outcomes x stop-event positions is connected and started on the real code and every completion order of the leaves is enumerated; signal counters on the outer and every inner receiver decide 'exactly one completion, not before start, none after'. The concurrent part runs two completer threads and a stopper against when_all / when_any / stop_when / let_value compositions, cancellable operations, async_scope close races, an event loop and spawn_future under every interleaving up to the preemption bound; deadlock / quiescent-but-unsignalled is reported by the scheduler.",
        "technique": 'exhaustive bounded enumeration of programs / operation sequences / fault positions on the real code against a lock-step reference model (stateless model checking, sequential harnesses) + stateless model checking of the implementation: exhaustive preemption-bounded schedule enumeration under a controlled scheduler (HB-prefix caching)',
    },
    'C02': {
        "text": 'A tracked payload stored inside the source operation is put under every adaptor (copy/move from a destroyed payload, double destruction, leak are counted); the expression sweeps run with a counting allocator, poisoned freed operation states (ASan) and a fault sweep in which each callable in turn throws; the concurrent harnesses free every heap operation from its receiver so that any touch after completion is an ASan report on some explored schedule.',
        "technique": 'exhaustive bounded enumeration of programs / operation sequences / fault positions on the real code against a lock-step reference model (stateless model checking, sequential harnesses) + stateless model checking of the implementation: exhaustive preemption-bounded schedule enumeration under a controlled scheduler (HB-prefix caching)',
    },
    'C04': {
        "text": "For every sender tree the reference model states which leaves must observe the stop request and when; the real leaves record what they observed through their receivers' stop tokens, and the number of live stop-callback registrations is checked at the outer completion. Stop is injected at every event index (before start, between any two leaf completions, from inside a leaf's own callback). Concurrent stop-vs-completion races run under the scheduler for the composing adaptors, stop_on_request, detach_on_cancel, spawn_future and async_scope.",
        "technique": 'exhaustive bounded enumeration of programs / operation sequences / fault positions on the real code against a lock-step reference model (stateless model checking, sequential harnesses) + stateless model checking of the implementation: exhaustive preemption-bounded schedule enumeration under a controlled scheduler (HB-prefix caching)',
    },
    'C05': {
        "text": 'The outer result (channel, value, error identity) of every depth-1/2 sender tree, for every leaf outcome and completion order, is compared with a reference evaluator written from doc/api_reference.md (run in lock step with explicit stop sources, LIFO callback order and re-entrancy); a fault sweep makes each user callable throw in turn; payload_adaptors checks the value/error objects themselves arrive unmodified.',
        "technique": 'exhaustive bounded enumeration of programs / operation sequences / fault positions on the real code against a lock-step reference model (stateless model checking, sequential harnesses)',
    },
    'C06': {
        "text": 'manual_event_loop, single_thread_context, static_thread_pool (1-2 threads, 1-2 producers), new_thread_context, timed_single_thread_context, trampoline_scheduler and any_scheduler are driven by 1-2 producer threads racing run()/stop()/request_stop under every interleaving up to the bound; per-item counters decide exactly-once, thread identity, FIFO (judged linearizability-style on start() call/return order), no lost item (deadlock detector) and that stop()/join returns.',
        "technique": 'stateless model checking of the implementation: exhaustive preemption-bounded schedule enumeration under a controlled scheduler (HB-prefix caching)',
    },
    'C07': {
        "text": 'timed_single_thread_context and thread_unsafe_event_loop run on the virtual clock: timers from small due-time alphabets submitted by 1-2 threads, cancelled before start / at once / at the due time / never; never-early, due order between timers whose submission is ordered, prompt cancellation, exactly-once and no retained reference (heap operations freed at completion, ASan) are checked on every interleaving; time_point/duration arithmetic is enumerated over boundary operands against 128-bit reference arithmetic. The epoll and io_uring timers are covered by C14.',
        "technique": 'stateless model checking of the implementation: exhaustive preemption-bounded schedule enumeration under a controlled scheduler (HB-prefix caching)',
    },
    'C08': {
        "text": 'v0, v1 and v2 async_scope: spawning threads race join()/cleanup()/complete()/request_stop under every interleaving up to the bound; the monitor counts operations outstanding when the join sender completes (must be 0), that join completes at all, that work nested after close is rejected without running, and that unconsumed nest senders release their reference.',
        "technique": 'stateless model checking of the implementation: exhaustive preemption-bounded schedule enumeration under a controlled scheduler (HB-prefix caching)',
    },
    'C09': {
        "text": "spawn_future (v1/v2 scopes) and spawn_detached: the spawned operation's completion (value / error / done), the future being awaited, dropped, or stopped, and scope closing are raced under every interleaving up to the bound; the future's result must equal what the operation produced, shared state and stop callbacks are released exactly once (ASan on heap state), a throwing allocator/connect is enumerated, and spawn_detached terminates only on error.",
        "technique": 'stateless model checking of the implementation: exhaustive preemption-bounded schedule enumeration under a controlled scheduler (HB-prefix caching); fault enumeration',
    },
    'C10': {
        "text": 'A script-interpreting coroutine (steps: await ready/suspended sender with value/error/done, nested task, at_coroutine_exit cleanup, schedule, throw, co_return) is enumerated over all scripts up to the depth, with and without a deferred scheduler and stop requests at every suspension; a reference interpreter predicts the result, the order of cleanups vs. locals, and that every frame is destroyed exactly once; coro_return_throws covers co_return values whose construction throws.',
        "technique": 'exhaustive bounded enumeration of programs / operation sequences / fault positions on the real code against a lock-step reference model (stateless model checking, sequential harnesses)',
    },
    'C11': {
        "text": "For every sender in a typed corpus (all factories and adaptors, nested once) the statically declared sends_done, blocking() and is_always_scheduler_affine are compared with what the real operation does for every leaf outcome (a 'never done' that completes done, an 'always_inline' that completes later, an 'affine' that completes on another context are violations); expr_ctx tags execution contexts and checks the context every completion runs on through via/on/typed_via/with_scheduler_affinity; events, async_mutex and task<> are checked for completing on the receiver's scheduler under the thread scheduler.",
        "technique": 'exhaustive bounded enumeration of programs / operation sequences / fault positions on the real code against a lock-step reference model (stateless model checking, sequential harnesses) + stateless model checking of the implementation: exhaustive preemption-bounded schedule enumeration under a controlled scheduler (HB-prefix caching)',
    },
    'C12': {
        "text": 'Every adaptor is placed at every position of depth-1/2 trees; each leaf (and each schedule() operation) records the answers its receiver gives to get_stop_token / get_scheduler / get_allocator / a user-defined query, and the reference model says which of them the adaptor may replace. The scheduler answer is an object whose move constructor empties the source, so forwarding it twice is visible.',
        "technique": 'exhaustive bounded enumeration of programs / operation sequences / fault positions on the real code against a lock-step reference model (stateless model checking, sequential harnesses)',
    },
    'C13': {
        "text": "All stream pipelines of depth <=2 over 12 adaptors and sources of length 0..3 (with error positions) are run with every timing of stop / trigger relative to in-flight next() operations; the delivered sequence and the reduce/for_each result are compared with list semantics; a monitor checks cleanup() of every started stream runs exactly once, only after the outstanding next() completed, and before the consumer's result.",
        "technique": 'exhaustive bounded enumeration of programs / operation sequences / fault positions on the real code against a lock-step reference model (stateless model checking, sequential harnesses)',
    },
    'C15': {
        "text": 'v1 and v2 async_mutex: 2-3 lockers (some cancellable, some on an event loop) under every interleaving up to the bound; a critical-section monitor decides mutual exclusion, FIFO among ordered requests, no leaked lock (mutex free at the end, every waiter completed exactly once), and the scheduler reports deadlock.',
        "technique": 'stateless model checking of the implementation: exhaustive preemption-bounded schedule enumeration under a controlled scheduler (HB-prefix caching)',
    },
    'C16': {
        "text": 'v1/v2 async_manual_reset_event, async_auto_reset_event and async_pass: setters/resetters, waiters (cancellable), callers and acceptors race under every interleaving up to the bound against a sequential specification of each primitive (no lost wake-up, no wake without set, one accept per call, done only if stopped).',
        "technique": 'stateless model checking of the implementation: exhaustive preemption-bounded schedule enumeration under a controlled scheduler (HB-prefix caching)',
    },
    'C17': {
        "text": 'find_if over all n in [0,1100] x every match position x sequential/parallel policy against std::find_if, with an address-in-range check on every predicate call; bulk_schedule / bulk_transform / bulk_join / indexed_for with per-index counters (each index exactly once, none after stop, no overlap).',
        "technique": 'exhaustive input enumeration on the real code (bounded)',
    },
    'C18': {
        "text": 'any_unique, any_object (throwing and nothrow-move payloads, inline and heap storage) are driven through every operation sequence up to depth 3 (4 thorough) over construct / move / assign-from-wrapper / assign-from-value / swap / reset / destroy with a ledger of payload constructions and destructions, alignment and storage checks; any_sender_of, any_scheduler, type_erased_stream and inplace_stop_token_adapter are checked differentially: the same expression with and without the wrapper must produce the same trace.',
        "technique": 'exhaustive bounded enumeration of programs / operation sequences / fault positions on the real code against a lock-step reference model (stateless model checking, sequential harnesses) (operation-sequence enumeration, differential oracle)',
    },
    'C19': {
        "text": 'cancellable<>, create_basic_sender, create_raw_sender-style operations, detach_on_cancel, stop_on_request and canary: a completing thread, a stop-requesting thread and start() race under every interleaving up to the bound (up to 4/6 preemptions for canary); exactly one of completion/cancellation wins, stop() is called at most once, nothing touches the operation after the winner destroyed it (ASan), start() returning after a concurrent completion is covered explicitly.',
        "technique": 'stateless model checking of the implementation: exhaustive preemption-bounded schedule enumeration under a controlled scheduler (HB-prefix caching)',
    },
}


# appended to the level text of a property (what was added in the later rounds)
THREADED_ADDENDUM = (" Every threaded harness is explored a second time in a ThreadSanitizer build (a data race in the library on any explored "
                     "schedule is a violation) and a third time in store-buffer (x86-TSO) mode, in which each non-seq_cst atomic store may stay "
                     "invisible to the other threads until the storing thread's next barrier, each such delay costing one unit of the same budget "
                     "as a preemption (this is what decides a removed or weakened seq_cst fence).")
ADDENDA = {
    "C01": THREADED_ADDENDUM,
    "C02": " A second build of the expression generator (exprnx) declares rvalue connect of the erased sender noexcept, so that every is_nothrow_connectable branch of the adaptors is compiled the other way round, with a leaf whose lvalue re-connect throws; every probe receiver is moved destructively (use of a moved-from receiver is reported)." + THREADED_ADDENDUM,
    "C03": THREADED_ADDENDUM,
    "C04": " The future harnesses (await + cancel, drop) also serve this property." + THREADED_ADDENDUM,
    "C05": " The fault sweeps (one throwing callable at every position, the n-th connect of a leaf throwing) also run in the exprnx build (rvalue connect noexcept, lvalue connect throwing), and repeat_effect_until is part of the alphabet.",
    "C06": " static_thread_pool is also destroyed right after an item was accepted; the condition-variable based contexts are explored once more with spurious wake-ups as budgeted deviations." + THREADED_ADDENDUM,
    "C07": " io_epoll_context and io_uring_context timers: three timers with every due-time combination, any one cancelled at once / at the first due time / at its own due time, optionally starting a further timer from its completion; spurious wake-ups as budgeted deviations for the condition-variable based contexts." + THREADED_ADDENDUM,
    "C08": " Operation sequences over spawn / move-assign (including a sender nested after the close assigned over a live one) / destroy / await / close are enumerated as well, and for the v1 and v0 scopes every sequence of up to 5 (thorough: 7) operations over {spawn A, spawn B, start complete(), start cleanup(), request_stop(), finish A, finish B} is executed against a reference model of closed / stopped / pending evaluated after every step (a stop request issued after the close must still reach outstanding work; every started join completes exactly once)." + THREADED_ADDENDUM,
    "C09": " The result also travels as a tracked payload whose n-th copy/move throws (constructions and destructions balanced, nothing destroyed that was never constructed) while the future is awaited or dropped concurrently." + THREADED_ADDENDUM,
    "C10": " Threaded variants race the completing thread, a stop requester and the task's scheduler (inline, one event-loop thread, an event loop run by two threads)." + THREADED_ADDENDUM,
    "C11": THREADED_ADDENDUM,
    "C12": " In lvalue-connect mode the erased nodes connect their own sender object as a non-const lvalue every time (as retry_when / repeat_effect_until do), with scheduler and allocator values that have destructive moves; probe receivers are moved destructively.",
    "C13": THREADED_ADDENDUM,
    "C14": " Three-timer harnesses as under C07." + THREADED_ADDENDUM,
    "C15": " Every sequence of up to 7 (8) operations over start-waiter / cancel waiter k / unlock is run against a FIFO reference (removal from the front, middle and tail of the waiter list)." + THREADED_ADDENDUM,
    "C16": " Every sequence of up to 6 (7) operations over wait / cancel waiter k / set / reset is run against a bool + parked-set reference for both event versions." + THREADED_ADDENDUM,
    "C17": " The execution policy the bulk source is told is checked for every combination of function and receiver policies under one and two bulk_transform layers.",
    "C18": " Probe receivers are moved destructively, so a wrapper that queries the receiver it has already moved from is reported." + THREADED_ADDENDUM,
    "C19": THREADED_ADDENDUM,
}
