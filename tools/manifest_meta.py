HOOK_COMMITS = []
NOTES = ("All verdicts come from exhaustive enumeration of bounded spaces of executions of the real library code "
         "(thread interleavings up to a preemption bound, data/event choices, fault positions); see DESIGN.md.")
DEFAULT_NOTE = ("Holds for the harness programs listed in the evidence file, all schedules up to the stated preemption bound, "
                "sequentially consistent interleavings of the hooked operations, g++ 12 -O1 with AddressSanitizer; trusted: the vmc "
                "scheduler model (self-tested by litmus programs in setup), the harness monitors, ASan.")
NOT_YET = {}
META = {
    "C03": {
        "text": "Every interleaving (up to the preemption bound) of request_stop callers, registering/deregistering threads and "
                "re-entrant callbacks on the real inplace_stop_source / fused_stop_source / inplace_stop_token_adapter is executed; "
                "a sequential specification of 'ran exactly once iff requested while registered, never after deregistration returned, "
                "exactly one first requester' is evaluated on each, with ASan watching the popped-but-not-executed window and the "
                "scheduler detecting deadlock/livelock in self-deregistration.",
        "technique": "stateless model checking (preemption-bounded exhaustive interleaving exploration of the real code, HB-prefix caching)",
    },
    "C20": {
        "text": "The exhaustive enumerations of exprgen (every depth-1 and depth-2 sender tree over the adaptor alphabet x leaf modes x "
                "stop events x fault positions), of the stream pipelines and of the coroutine scripts are re-run in trace mode in each "
                "build configuration {C++17,C++20} x {NDEBUG, debug+async stacks} x {continuation visitation 0,1}; each execution's "
                "canonical observation trace (events, completion channel, value, completion context, order) is its outcome and the "
                "multiset of outcomes is compared across configurations by digest and, on mismatch, entry by entry. Inside each "
                "configuration trace_chain enumerates every pair of visitation-forwarding adaptors (and task<> nestings) around "
                "async_trace_sender and checks the trace is a tree that reaches the root receiver, and that the thread's AsyncStackRoot "
                "is restored after every case; a header matrix checks every public header still compiles in every configuration.",
        "technique": "exhaustive bounded enumeration of operation sequences on the real code, differential across all build configurations "
                     "(stateless model checking, sequential harnesses; digest comparison of complete outcome multisets)",
        "note": "Sequential (single-threaded) harnesses only: the configuration switches select code, not schedules. quick = 4 of the 8 "
                "configurations and 20 of 27 depth-2 roots; thorough = all 8 configurations and all roots. The header matrix is a compile check, "
                "not an exploration; it is a precondition for the comparison, reported separately in the evidence.",
    },
    "C14": {
        "text": "io_epoll_context and io_uring_context run unmodified over a simulated kernel (kit/ksim: epoll, eventfd, timerfd, byte-capacity pipes, "
                "in-memory files, an io_uring ring simulator serving io_uring_setup/enter and the three mmap regions, virtual clock) reached through link-time --wrap seams, so readiness order, wake-ups, timer expiry, short transfers and "
                "failing syscalls are all scheduler choices.  Every interleaving up to the preemption bound of the I/O thread with remote "
                "producers, stop requesters and the other end of the pipe is executed for: remote scheduling vs the idle/wake-up protocol, "
                "run(stop_token), timers cancelled remotely / locally / at the due time, pipe reads and writes of all size relations, "
                "cancellation before start / while parked / racing readiness followed by re-use of the descriptor, descriptor-number reuse, "
                "and injected errno on the n-th readv/writev.  Operations and buffers live on the heap and are freed at completion (ASan + "
                "a direct check that no epoll registration points into a completed operation); descriptors must be closed exactly once.  "
                "The simulated kernel is itself checked against the real kernel on every operation sequence up to depth 5 (ksim_conf).",
        "technique": "stateless model checking of the implementation (preemption-bounded exhaustive schedule enumeration) over a simulated kernel "
                     "bound to the real one by an exhaustive conformance enumeration",
        "note": "io_uring: ring sizes are a parameter of the simulator (4 / 2 entries instead of 256) so that queue-full and completion-budget paths are reachable; "
                "one known finding (cancellation starved when in-flight operations fill the completion queue) is listed in KNOWN_FINDINGS.txt.  Pipe capacity is counted in bytes (the real kernel counts page slots); "
                "conformance is established for whole-page transfers.  Two concurrent operations of the same kind on one descriptor are not "
                "driven (the context documents one registration per descriptor).",
    },
}
