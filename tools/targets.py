# harness executables: name, sources (relative to /verif), optional wraps/defs/skip_lib
EXES = [
    {"name": "litmus", "sources": ["harness/litmus.cpp"]},
    {"name": "stop", "sources": ["harness/stop.cpp"]},
    {"name": "cancel", "sources": ["harness/cancel.cpp"]},
    {"name": "mutexh", "sources": ["harness/mutexh.cpp"]},
    {"name": "events", "sources": ["harness/events.cpp"]},
    {"name": "scopes", "sources": ["harness/scopes.cpp"]},
    {"name": "futures", "sources": ["harness/futures.cpp"]},
    {"name": "sched", "sources": ["harness/sched.cpp"]},
    {"name": "expr", "sources": ["harness/expr.cpp"]},
    {"name": "races", "sources": ["harness/races.cpp"]},
    {"name": "bulk", "sources": ["harness/bulk.cpp"]},
    {"name": "streams", "sources": ["harness/streams.cpp"]},
    {"name": "timers", "sources": ["harness/timers.cpp"]},
    {"name": "anyw", "sources": ["harness/anyw.cpp"]},
    {"name": "coro", "sources": ["harness/coro.cpp"]},
    {"name": "traits", "sources": ["harness/traits.cpp"]},
]
