#!/usr/bin/env python3
"""seeded.py run <name> [--props C03,C19] [--tier quick] [--worktree]
Applies /verif/seeded/<name>/patch.diff to /repo, runs the named property checks (default: the property in
meta.json), records which checks report a VIOLATION, and always reverts /repo afterwards.
With --worktree the change is applied to a scratch git worktree of /repo's HEAD instead (outside /repo and /verif,
removed afterwards) and the checks are pointed at it with VERIF_REPO / VERIF_BUILD, so /repo itself is never touched
and other runs that build from /repo are not disturbed."""
import json, os, subprocess, sys, time
VERIF = os.path.dirname(os.path.dirname(os.path.abspath(__file__)))
REPO = "/repo"


def sh(cmd, **kw):
    return subprocess.run(cmd, shell=True, text=True, stdout=subprocess.PIPE, stderr=subprocess.STDOUT, **kw)


def main():
    name = sys.argv[2]
    d = os.path.join(VERIF, "seeded", name)
    meta_p = os.path.join(d, "meta.json")
    meta = json.load(open(meta_p)) if os.path.exists(meta_p) else {}
    props = None
    tier = "quick"
    for i, a in enumerate(sys.argv):
        if a == "--props":
            props = sys.argv[i + 1].split(",")
        if a == "--tier":
            tier = sys.argv[i + 1]
    props = props or meta.get("detect_with") or [meta["property"]]
    wt = None
    env = dict(os.environ)
    target = REPO
    if "--worktree" in sys.argv:
        wt = os.path.join(os.environ.get("TMPDIR", "/tmp"), "seedwt_" + name)
        sh("git -C %s worktree remove --force %s" % (REPO, wt))
        r = sh("git -C %s worktree add -f %s HEAD" % (REPO, wt))
        if r.returncode != 0:
            print("cannot create worktree:\n" + r.stdout)
            sys.exit(2)
        target = wt
        env["VERIF_REPO"] = wt
        env["VERIF_BUILD"] = os.path.join(os.environ.get("TMPDIR", "/tmp"), "seedbuild")
    else:
        st = sh("git -C %s status --porcelain --untracked-files=no" % REPO).stdout.strip()
        if st:
            print("refusing: /repo has local modifications:\n" + st)
            sys.exit(2)
    r = sh("git -C %s apply %s" % (target, os.path.join(d, "patch.diff")))
    if r.returncode != 0:
        print("patch does not apply:\n" + r.stdout)
        sys.exit(2)
    results = {}
    repdir = os.path.join(VERIF, "replays")
    before = set(os.path.join(r, f) for r, _d, fs in os.walk(repdir) for f in fs)
    try:
        for p in props:
            t0 = time.time()
            r = sh("python3 %s/tools/check.py %s --tier %s --no-evidence" % (VERIF, p, tier), cwd=VERIF, env=env)
            viol = [l for l in r.stdout.splitlines() if l.startswith("VIOLATION")]
            sigs = [l.strip() for l in r.stdout.splitlines() if l.startswith("  ") and "|" in l and ":" in l][:6]
            results[p] = {"exit": r.returncode, "violations": viol, "signatures": sigs, "wall_s": round(time.time() - t0, 1)}
            print(p, "exit", r.returncode, "\n  " + "\n  ".join(viol or ["(no violation reported)"]))
            if "ENGINE-ERROR" in r.stdout or "BUILD-ERROR" in r.stdout:
                print(r.stdout[-1500:])
    finally:
        if wt:
            sh("git -C %s worktree remove --force %s" % (REPO, wt))
        else:
            sh("git -C %s checkout -- ." % REPO)
    # replay files written while the change was applied belong to the seed, not to the unchanged tree
    import shutil
    dst = os.path.join(d, "replays")
    for r, _d, fs in os.walk(repdir):
        for f in fs:
            pth = os.path.join(r, f)
            if pth not in before and not f.startswith("known."):
                os.makedirs(dst, exist_ok=True)
                shutil.move(pth, os.path.join(dst, f))
    meta.setdefault("detection", {})[tier] = results
    meta["detected"] = any(v["violations"] for t in meta["detection"].values() for v in t.values())
    json.dump(meta, open(meta_p, "w"), indent=1)


if __name__ == "__main__":
    main()
