#!/usr/bin/env python3
"""check.py <property> [--tier quick|thorough] [--replay path] [--only harness]

Builds the harness executables the property needs from /repo's current working tree, runs every harness
registered for the property in tools/checks.py under the explorer, writes /verif/evidence/<id>.json and
prints one `VIOLATION property=<id> replay=<path>` line per new violation signature (exit 1),
`KNOWN-FINDING: property=<id> ...` for signatures listed in /verif/KNOWN_FINDINGS.txt (exit 0).
Exit 2 = engine/build error (never used to hide a verdict).
"""
import argparse
import json
import os
import re
import subprocess
import sys
import time

HERE = os.path.dirname(os.path.abspath(__file__))
VERIF = os.path.dirname(HERE)
sys.path.insert(0, HERE)
import checks  # noqa: E402
import targets  # noqa: E402
import vbuild  # noqa: E402

ENV = dict(os.environ)
ENV["ASAN_OPTIONS"] = ("detect_leaks=0:abort_on_error=0:detect_stack_use_after_return=0:allocator_may_return_null=1:symbolize=1:"
                       "malloc_context_size=12:handle_abort=1:use_sigaltstack=0:quarantine_size_mb=8:thread_local_quarantine_size_kb=64")
ENV["TSAN_OPTIONS"] = "halt_on_error=1:report_signal_unsafe=0:exitcode=66"
ENV["UBSAN_OPTIONS"] = "halt_on_error=1"


def load_known():
    known, fixed = [], []
    p = os.path.join(VERIF, "KNOWN_FINDINGS.txt")
    if os.path.exists(p):
        for line in open(p):
            line = line.strip()
            if not line or line.startswith("#"):
                continue
            m = re.match(r"known:\s+property=(\S+)\s+signature=(\S+)\s+(.*)", line)
            if m:
                known.append((m.group(1), m.group(2), m.group(3)))
            elif line.startswith("fixed:"):
                fixed.append(line)
    return known, fixed


def exe_spec(name):
    for e in targets.EXES:
        if e["name"] == name:
            return e
    raise KeyError(name)


def sanitize(s):
    return re.sub(r"[^A-Za-z0-9_.-]+", "_", s)[:120]


def run_harness(builder, item, tier, deadline_s, outdir):
    exe = builder.exe(item["exe"])
    out = os.path.join(outdir, sanitize(item["harness"] + "." + ",".join(map(str, item.get("args", [])))) + ".json")
    bound = item.get("thorough" if tier == "thorough" else "quick", item.get("quick", 2))
    cmd = [exe, "--run", item["harness"], "--bound", str(bound), "--workers", str(item.get("workers", 16)),
           "--deadline", "%.0f" % max(5.0, deadline_s), "--out", out, "--stderr-dir", os.path.join(VERIF, "build", "run")]
    if item.get("args"):
        cmd += ["--args", ",".join(map(str, item["args"]))]
    for k in ("max-steps", "hang-timeout", "cache-bits", "max-failures"):
        if k in item:
            cmd += ["--" + k, str(item[k])]
    if item.get("no_cache"):
        cmd.append("--no-cache")
    try:
        os.unlink(out)
    except OSError:
        pass
    p = subprocess.run(cmd, env=ENV, stdout=subprocess.PIPE, stderr=subprocess.PIPE, text=True)
    if p.returncode not in (0, 1) or not os.path.exists(out):
        return None, "harness %s: explorer exited %d\n%s" % (item["harness"], p.returncode, p.stderr[-3000:])
    try:
        rep = json.load(open(out))
    except Exception as ex:  # noqa: BLE001
        return None, "harness %s: unreadable report: %s" % (item["harness"], ex)
    rep["_bound_requested"] = bound
    rep["_cmd"] = " ".join(cmd)
    return rep, None


def replay(path):
    r = json.load(open(path))
    b = vbuild.Builder(r.get("flavour", "asan"), r.get("config", "verif"))
    errs = b.build([exe_spec(r["exe"])])
    if errs:
        print("\n".join(errs))
        return 2
    cmd = [b.exe(r["exe"]), "--replay", r["harness"], "--choices", r["choices"], "--stderr-dir", os.path.join(VERIF, "build", "run")]
    if r.get("args"):
        cmd += ["--args", ",".join(map(str, r["args"]))]
    p = subprocess.run(cmd, env=ENV, text=True, stdout=subprocess.PIPE, stderr=subprocess.PIPE)
    sys.stdout.write(p.stdout)
    sys.stderr.write(p.stderr[-6000:])
    if p.returncode == 1:
        print("VIOLATION property=%s replay=%s" % (r["property"], path))
    return p.returncode


def main():
    ap = argparse.ArgumentParser()
    ap.add_argument("prop")
    ap.add_argument("--tier", default=os.environ.get("VERIF_TIER", "quick"))
    ap.add_argument("--replay")
    ap.add_argument("--only", action="append")
    ap.add_argument("--deadline", type=float, default=None)
    ap.add_argument("--no-evidence", action="store_true")
    a = ap.parse_args()
    if a.replay:
        sys.exit(replay(a.replay))
    prop = a.prop
    tier = "thorough" if a.tier == "thorough" else "quick"
    seed = int(os.environ.get("VERIF_SEED", "0") or 0)
    spec = checks.CHECKS[prop]
    items = [i for i in spec["harnesses"] if tier == "thorough" or not i.get("thorough_only")]
    if a.only:
        items = [i for i in items if i["harness"] in a.only]
    total_deadline = a.deadline or spec.get("deadline", {}).get(tier, 240 if tier == "quick" else 1500)
    t0 = time.time()
    # ---- build ----
    builder = vbuild.Builder("asan", "verif")
    names = sorted({i["exe"] for i in items})
    errs = builder.build([exe_spec(n) for n in names])
    if errs:
        print("BUILD-ERROR (engine error, no verdict):")
        print("\n".join(errs))
        sys.exit(2)
    build_s = time.time() - t0
    outdir = os.path.join(VERIF, "build", "run", prop + "-" + tier)
    os.makedirs(outdir, exist_ok=True)
    # seed only permutes the order in which harnesses are run; coverage is seed independent
    if seed:
        k = seed % max(1, len(items))
        items = items[k:] + items[:k]
    reports, engine_errors = [], []
    weights = [i.get("weight", 1.0) for i in items]
    for n, item in enumerate(items):
        left = total_deadline - (time.time() - t0)
        share = left * weights[n] / max(1e-9, sum(weights[n:]))
        rep, err = run_harness(builder, item, tier, max(8.0, share), outdir)
        if err:
            engine_errors.append(err)
            continue
        rep["_item"] = item
        reports.append(rep)
    # ---- verdicts ----
    known, _fixed = load_known()
    viol_lines, known_lines = [], []
    nviol = 0
    repdir = os.path.join(VERIF, "replays", prop)
    for rep in reports:
        hprops = rep["props"].split(",")
        for f in rep["failures"]:
            fprops = hprops if f["props"] in ("*", "") else f["props"].split(",")
            if f["props"] == "!":
                engine_errors.append("harness %s: %s (%s)" % (rep["harness"], f["msg"], f["key"]))
                continue
            if prop not in fprops:
                continue
            sig = f["signature"]
            kn = [k for k in known if k[0] == prop and k[1] == sig]
            if kn:
                known_lines.append("KNOWN-FINDING: property=%s %s [%s; %d failing schedules, first at p<=%d]" % (prop, kn[0][2], sig, f["count"], f["bound"]))
                continue
            nviol += 1
            os.makedirs(repdir, exist_ok=True)
            path = os.path.join(repdir, sanitize(sig + ("." + "_".join(map(str, rep["args"])) if rep["args"] else "")) + ".json")
            json.dump({"property": prop, "exe": rep["_item"]["exe"], "harness": rep["harness"], "args": rep["args"],
                       "bound": f["bound"], "choices": f["choices"], "key": f["key"], "msg": f["msg"], "signature": sig,
                       "outcome": f["outcome"], "failing_schedules": f["count"], "detail": f["detail"],
                       "flavour": "asan", "config": "verif",
                       "how_to_replay": "python3 tools/check.py %s --replay %s" % (prop, path)}, open(path, "w"), indent=1)
            viol_lines.append("VIOLATION property=%s replay=%s" % (prop, path))
            sys.stderr.write("  %s: %s\n" % (sig, f["msg"][:300]))
    # ---- evidence ----
    ev_states = sum(b["states"] for r in reports for b in r["bounds"][-1:])
    ev_trans = sum(b["transitions"] for r in reports for b in r["bounds"])
    ev_execs = sum(b["executions"] for r in reports for b in r["bounds"])
    distinct = sum(r["distinct_outcomes"] for r in reports)
    exhaustive = all(r["exhaustive"] for r in reports) and not engine_errors and len(reports) == len(items)
    per = []
    samples = []
    for r in reports:
        last = [b for b in r["bounds"] if b["complete"]]
        per.append({"harness": r["harness"], "args": r["args"], "sequential": r["sequential"],
                    "bound_requested": r["_bound_requested"], "bound_completed": (last[-1]["bound"] if last else None),
                    "executions": sum(b["executions"] for b in r["bounds"]), "states": r["bounds"][-1]["states"] if r["bounds"] else 0,
                    "transitions": sum(b["transitions"] for b in r["bounds"]), "pruned_equivalent": sum(b["pruned"] for b in r["bounds"]),
                    "distinct_outcomes": r["distinct_outcomes"], "exhaustive_within_bound": r["exhaustive"], "wall_s": r["wall_s"],
                    "failure_signatures": [f["signature"] for f in r["failures"]]})
        for s in r["samples"][:2]:
            samples.append({"harness": r["harness"], "schedule_and_outcome": s})
        for o in list(r["outcomes"].items())[:3]:
            samples.append({"harness": r["harness"], "outcome": o[0], "executions_with_this_outcome": o[1]})
    wall = time.time() - t0
    ev = {
        "property_id": prop, "tier": tier, "seed": seed, "level": "model_checking",
        "coverage": {
            "states": int(ev_states), "transitions": int(ev_trans), "traces_validated_against_impl": int(ev_execs),
            "samples": samples[:40] or ["none"],
            "evaluations": int(ev_execs), "distinct_nontrivial": int(distinct),
            "rule": "every execution is one complete run of the real libunifex code under the controlled scheduler; schedules are "
                    "enumerated exhaustively up to the preemption bound (and all data choices); 'states' = distinct happens-before "
                    "prefixes (choice-tree nodes for sequential harnesses); distinct_nontrivial = number of distinct observed outcome "
                    "vectors (harness notes) summed over harnesses",
            "exhaustive": bool(exhaustive), "harnesses": per, "build_s": round(build_s, 1),
            "deadline_s": total_deadline, "engine_errors": engine_errors,
        },
        "assumptions": spec.get("assumptions", []) + [
            "sequentially consistent interleavings of the hooked synchronisation operations (atomics, mutexes, condition variables, threads, clock)",
            "bounds as listed per harness; a harness with exhaustive_within_bound=false was cut by the deadline and claims only bound_completed",
            "g++ 12 -O1 with AddressSanitizer; library assertions enabled (no NDEBUG)"],
        "wall_s": round(wall, 2), "violations": nviol,
    }
    if not a.no_evidence and not a.only:
        os.makedirs(os.path.join(VERIF, "evidence"), exist_ok=True)
        json.dump(ev, open(os.path.join(VERIF, "evidence", prop + ".json"), "w"), indent=1)
    for r in per:
        print("  %-28s args=%-10s p<=%s execs=%-8d states=%-8d outcomes=%-5d %s %.1fs %s" % (
            r["harness"], ",".join(map(str, r["args"])), r["bound_completed"], r["executions"], r["states"], r["distinct_outcomes"],
            "complete" if r["exhaustive_within_bound"] else "CUT", r["wall_s"], " ".join(r["failure_signatures"])))
    for l in known_lines:
        print(l)
    for l in viol_lines:
        print(l)
    print("%s %s: %d executions, %d states, %d harnesses, %.1fs (build %.1fs)%s" % (
        prop, tier, ev_execs, ev_states, len(reports), wall, build_s, "" if exhaustive else " [not exhaustive within bounds]"))
    if engine_errors:
        print("ENGINE-ERROR:\n" + "\n".join(engine_errors))
        sys.exit(1 if viol_lines else 2)
    sys.exit(1 if viol_lines else 0)


if __name__ == "__main__":
    main()
