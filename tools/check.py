#!/usr/bin/env python3
"""check.py <property> [--tier quick|thorough] [--replay path] [--only harness]

Builds the harness executables the property needs from /repo's current working tree, runs every harness
registered for the property in tools/checks.py under the explorer, writes /verif/evidence/<id>.json and
prints one `VIOLATION property=<id> replay=<path>` line per new violation signature (exit 1),
`KNOWN-FINDING: property=<id> ...` for signatures listed in /verif/KNOWN_FINDINGS.txt (exit 0).
Exit 2 = engine/build error (never used to hide a verdict).
"""
import argparse
import fnmatch
import json
import os
import re
import subprocess
import sys
import time

HERE = os.path.dirname(os.path.abspath(__file__))
VERIF = os.path.dirname(HERE)
sys.path.insert(0, HERE)
import checks  # noqa: E402
import targets  # noqa: E402
import vbuild  # noqa: E402

ENV = dict(os.environ)
ENV["ASAN_OPTIONS"] = ("detect_leaks=0:abort_on_error=0:detect_stack_use_after_return=0:allocator_may_return_null=1:symbolize=1:"
                       "malloc_context_size=12:handle_abort=1:use_sigaltstack=0:quarantine_size_mb=8:thread_local_quarantine_size_kb=64")
ENV["TSAN_OPTIONS"] = "halt_on_error=1:report_signal_unsafe=0:exitcode=66"
ENV["UBSAN_OPTIONS"] = "halt_on_error=1"


def load_known():
    known, fixed = [], []
    p = os.path.join(VERIF, "KNOWN_FINDINGS.txt")
    if os.path.exists(p):
        for line in open(p):
            line = line.strip()
            if not line or line.startswith("#"):
                continue
            m = re.match(r"known:\s+property=(\S+)\s+signature=(\S+)\s+(.*)", line)
            if m:
                known.append((m.group(1), m.group(2), m.group(3)))
            elif line.startswith("fixed:"):
                fixed.append(line)
    return known, fixed


def sig_matches(pattern, sig):
    """a known-finding signature is literal, or a glob (only '*' is special) when it contains a '*'"""
    if "*" in pattern:
        return fnmatch.fnmatchcase(sig, pattern.replace("[", "[[]"))
    return pattern == sig


def exe_spec(name):
    for e in targets.EXES:
        if e["name"] == name:
            return e
    raise KeyError(name)


def sanitize(s):
    return re.sub(r"[^A-Za-z0-9_.-]+", "_", s)[:120]


def run_harness(builder, item, tier, deadline_s, outdir):
    exe = builder.exe(item["exe"])
    os.makedirs(outdir, exist_ok=True)
    out = os.path.join(outdir, sanitize(item["harness"] + "." + ",".join(map(str, item.get("args", [])))) + ".json")
    bound = item.get("thorough" if tier == "thorough" else "quick", item.get("quick", 2))
    cmd = [exe, "--run", item["harness"], "--bound", str(bound), "--workers", str(item.get("workers", 16)),
           "--deadline", "%.0f" % max(5.0, deadline_s), "--out", out, "--stderr-dir", os.path.join(vbuild.BUILD, "run")]
    if item.get("args"):
        cmd += ["--args", ",".join(map(str, item["args"]))]
    for k in ("max-steps", "hang-timeout", "cache-bits", "max-failures"):
        if k in item:
            cmd += ["--" + k, str(item[k])]
    if item.get("no_cache"):
        cmd.append("--no-cache")
    if item.get("tso"):
        cmd.append("--tso")
    if item.get("spurious"):
        cmd.append("--spurious")
    try:
        os.unlink(out)
    except OSError:
        pass
    p = subprocess.run(cmd, env=ENV, stdout=subprocess.PIPE, stderr=subprocess.PIPE, text=True)
    if p.returncode not in (0, 1) or not os.path.exists(out):
        return None, "harness %s: explorer exited %d\n%s" % (item["harness"], p.returncode, p.stderr[-3000:])
    try:
        rep = json.load(open(out))
    except Exception as ex:  # noqa: BLE001
        return None, "harness %s: unreadable report: %s" % (item["harness"], ex)
    rep["_bound_requested"] = bound
    rep["_cmd"] = " ".join(cmd)
    return rep, None


HDR_SKIP = {
    # included from the middle of sender_concepts.hpp (circular by design); never meant to be included first
    "unifex/tracing/inject_async_stack.hpp",
}


def header_list():
    inc = os.path.join(vbuild.REPO, "include")
    out = []
    for root, _dirs, files in os.walk(os.path.join(inc, "unifex")):
        for f in files:
            if f.endswith(".hpp"):
                rel = os.path.relpath(os.path.join(root, f), inc)
                if "/win32/" in rel or rel.endswith("detail/prologue.hpp") or rel.endswith("detail/epilogue.hpp") or rel in HDR_SKIP:
                    continue
                out.append(rel)
    return sorted(out)


def header_compiles(cfg, hdr):
    d = os.path.join(vbuild.BUILD, "hdr", cfg)
    os.makedirs(d, exist_ok=True)
    src = os.path.join(d, sanitize(hdr) + ".cpp")
    with open(src, "w") as f:
        f.write("#include <%s>\n" % hdr)
    cmd = ["g++", "-fsyntax-only", "-w", "-I" + os.path.join(vbuild.REPO, "include")] + vbuild.CONFIGS[cfg] + [src]
    p = subprocess.run(cmd, stdout=subprocess.PIPE, stderr=subprocess.STDOUT, text=True)
    return p.returncode == 0, p.stdout[-2500:], " ".join(cmd)


def header_matrix(configs, base_of):
    """every public header, included on its own, must compile in configuration X whenever it compiles in the
    baseline configuration of the same language level (the one the pinned suite is built in / its C++20 twin).
    Returns (n_compiles, [(cfg, hdr, msg, cmd)])"""
    import concurrent.futures as cf
    import hashlib
    hdrs = header_list()
    need = sorted(set(configs) | {base_of(c) for c in configs})
    # results are cached under the SHA-256 of the whole include tree: any edit to any header recompiles everything
    th = hashlib.sha256()
    inc = os.path.join(vbuild.REPO, "include")
    for root, _d, files in sorted(os.walk(inc)):
        for f in sorted(files):
            th.update(os.path.relpath(os.path.join(root, f), inc).encode())
            th.update(open(os.path.join(root, f), "rb").read())
    th.update(repr(sorted(vbuild.CONFIGS.items())).encode())
    cpath = os.path.join(vbuild.BUILD, "hdr", "cache.json")
    try:
        cache = json.load(open(cpath))
        if cache.get("tree") != th.hexdigest():
            cache = {"tree": th.hexdigest(), "res": {}}
    except Exception:  # noqa: BLE001
        cache = {"tree": th.hexdigest(), "res": {}}
    res = {}
    todo = []
    for c in need:
        for h in hdrs:
            k = c + "|" + h
            if k in cache["res"]:
                res[(c, h)] = tuple(cache["res"][k])
            else:
                todo.append((c, h))
    with cf.ThreadPoolExecutor(16) as pool:
        futs = {pool.submit(header_compiles, c, h): (c, h) for c, h in todo}
        for f in cf.as_completed(futs):
            res[futs[f]] = f.result()
            cache["res"]["|".join(futs[f])] = list(f.result())
    os.makedirs(os.path.dirname(cpath), exist_ok=True)
    json.dump(cache, open(cpath, "w"))
    bad = []
    for c in configs:
        for h in hdrs:
            if res[(base_of(c), h)][0] and not res[(c, h)][0]:
                bad.append((c, h, res[(c, h)][1], res[(c, h)][2]))
    return len(res), len(hdrs), bad


def base_config(cfg):
    return "c17rel" if cfg.startswith("c17") else "c20rel"


def run_config_diff(r):
    """replay of a configuration difference: rebuild both configurations, rerun the harness, compare digests"""
    reps = {}
    for cfg in r["configs"]:
        b = vbuild.Builder("asan", cfg)
        errs = b.build([exe_spec(r["exe"])])
        if errs:
            print("\n".join(errs))
            return 2
        item = {"exe": r["exe"], "harness": r["harness"], "args": r["args"], "quick": r["bound"]}
        rep, err = run_harness(b, item, "quick", 600, os.path.join(vbuild.BUILD, "run", "replay"))
        if err:
            print(err)
            return 2
        reps[cfg] = rep
    a, b_ = r["configs"]
    print("%s: %s executions=%d digest=%s | %s executions=%d digest=%s" % (
        r["harness"], a, reps[a]["bounds"][-1]["executions"], reps[a]["outcome_digest"], b_, reps[b_]["bounds"][-1]["executions"], reps[b_]["outcome_digest"]))
    for line in diff_outcomes(reps[a], reps[b_], a, b_)[:10]:
        print("  " + line)
    if reps[a]["outcome_digest"] != reps[b_]["outcome_digest"]:
        return 1
    return 0


def diff_outcomes(ra, rb, na, nb):
    oa, ob = ra.get("outcomes", {}), rb.get("outcomes", {})
    out = []
    for k in sorted(set(oa) | set(ob)):
        if oa.get(k, 0) != ob.get(k, 0):
            out.append("%s x%d in %s, x%d in %s" % (k[:400], oa.get(k, 0), na, ob.get(k, 0), nb))
    return out


def replay(path):
    r = json.load(open(path))
    if r.get("kind") == "config_diff":
        rc = run_config_diff(r)
        if rc == 1:
            print("VIOLATION property=%s replay=%s" % (r["property"], path))
        return rc
    if r.get("kind") == "header":
        ok, msg, cmd = header_compiles(r["config"], r["header"])
        okb, _m, _c = header_compiles(base_config(r["config"]), r["header"])
        print(cmd)
        print(msg)
        if okb and not ok:
            print("VIOLATION property=%s replay=%s" % (r["property"], path))
            return 1
        return 0
    b = vbuild.Builder(r.get("flavour", "asan"), r.get("config", "verif"))
    errs = b.build([exe_spec(r["exe"])])
    if errs:
        print("\n".join(errs))
        return 2
    cmd = [b.exe(r["exe"]), "--replay", r["harness"], "--choices", r["choices"], "--stderr-dir", os.path.join(vbuild.BUILD, "run")]
    if r.get("args"):
        cmd += ["--args", ",".join(map(str, r["args"]))]
    if r.get("tso"):
        cmd.append("--tso")
    if r.get("spurious"):
        cmd.append("--spurious")
    p = subprocess.run(cmd, env=ENV, text=True, stdout=subprocess.PIPE, stderr=subprocess.PIPE)
    sys.stdout.write(p.stdout)
    sys.stderr.write(p.stderr[-6000:])
    if p.returncode == 1:
        print("VIOLATION property=%s replay=%s" % (r["property"], path))
    return p.returncode


def main():
    ap = argparse.ArgumentParser()
    ap.add_argument("prop")
    ap.add_argument("--tier", default=os.environ.get("VERIF_TIER", "quick"))
    ap.add_argument("--replay")
    ap.add_argument("--only", action="append")
    ap.add_argument("--deadline", type=float, default=None)
    ap.add_argument("--no-evidence", action="store_true")
    a = ap.parse_args()
    if a.replay:
        sys.exit(replay(a.replay))
    prop = a.prop
    tier = "thorough" if a.tier == "thorough" else "quick"
    seed = int(os.environ.get("VERIF_SEED", "0") or 0)
    spec = checks.CHECKS[prop]
    items = [i for i in spec["harnesses"] if tier == "thorough" or not i.get("thorough_only")]
    if a.only:
        items = [i for i in items if i["harness"] in a.only]
    total_deadline = a.deadline or spec.get("deadline", {}).get(tier, 240 if tier == "quick" else 1500)
    t0 = time.time()
    # ---- build ----
    configs = spec.get("configs", {}).get(tier) or ["verif"]
    builders = {c: vbuild.Builder("asan", c) for c in configs}
    build_fail = []
    # ThreadSanitizer pass: items marked flavour="tsan" run the same harness bodies in the tsan flavour (clang,
    # harness code uninstrumented) so that unsynchronised accesses in the library are reported on every explored schedule
    tsan_items = [i for i in items if i.get("flavour") == "tsan"]
    tsan_builder = vbuild.Builder("tsan", "verif") if tsan_items else None

    def build_cfg(c):
        names = sorted({i["exe"] for i in items if i.get("flavour") != "tsan" and not (i.get("cxx20") and c.startswith("c17"))})
        return c, builders[c].build([exe_spec(n) for n in names])
    import concurrent.futures as cf
    with cf.ThreadPoolExecutor(3) as pool:
        for c, errs in pool.map(build_cfg, configs):
            if errs:
                build_fail.append((c, errs))
    if tsan_builder:
        errs = tsan_builder.build([exe_spec(n) for n in sorted({i["exe"] for i in tsan_items})])
        if errs:
            build_fail.append(("tsan", errs))
    if build_fail and "configs" not in spec:
        print("BUILD-ERROR (engine error, no verdict):")
        print("\n".join(build_fail[0][1]))
        sys.exit(2)
    build_s = time.time() - t0
    outdir = os.path.join(vbuild.BUILD, "run", prop + "-" + tier)
    os.makedirs(outdir, exist_ok=True)
    # seed only permutes the order in which harnesses are run; coverage is seed independent
    if seed:
        k = seed % max(1, len(items))
        items = items[k:] + items[:k]
    reports, engine_errors = [], []
    failed_cfgs = {c for c, _e in build_fail}
    work = [(c, i) for c in configs if c not in failed_cfgs for i in items if not (i.get("cxx20") and c.startswith("c17"))]
    n_expected = len([(c, i) for c in configs for i in items if not (i.get("cxx20") and c.startswith("c17")) and not (i.get("flavour") == "tsan" and c != configs[0])])
    weights = [i.get("weight", 1.0) for _c, i in work]
    for n, (cfg, item) in enumerate(work):
        left = total_deadline - (time.time() - t0)
        share = left * weights[n] / max(1e-9, sum(weights[n:]))
        is_tsan = item.get("flavour") == "tsan"
        if is_tsan and cfg != configs[0]:
            continue
        rep, err = run_harness(tsan_builder if is_tsan else builders[cfg], item, tier, max(8.0, share),
                               os.path.join(outdir, "tsan") if is_tsan else os.path.join(outdir, "tso") if item.get("tso") else os.path.join(outdir, "spur") if item.get("spurious") else (os.path.join(outdir, cfg) if len(configs) > 1 else outdir))
        if err:
            engine_errors.append("[%s] %s" % (cfg, err))
            continue
        rep["_item"] = item
        rep["_config"] = cfg
        rep["_flavour"] = "tsan" if is_tsan else "asan"
        rep["_tso"] = bool(item.get("tso"))
        rep["_spur"] = bool(item.get("spurious"))
        reports.append(rep)
    # ---- stretch (thorough tier only): spend what is left of the budget on deeper preemption bounds ------------------
    # Every threaded harness that completed its registered bound is re-run at bound+1, cheapest first, round after round,
    # as long as a run fits into the remaining time.  A deeper run replaces the shallower report only when it completed;
    # a run cut by its deadline claims nothing (its failures, if any, are still reported).
    stretched = []
    if tier == "thorough" and "configs" not in spec and not a.only and not os.environ.get("VERIF_NO_STRETCH"):
        cand = [r for r in reports if not r["sequential"] and r["exhaustive"] and not r["failures"]]
        while cand:
            left = total_deadline - (time.time() - t0)
            if left < 45:
                break
            cand.sort(key=lambda r: r["wall_s"])
            nxt = []
            for r in cand:
                left = total_deadline - (time.time() - t0)
                # a bound step costs roughly one order of magnitude; do not start what cannot finish
                if left < 45 or r["wall_s"] * 6 > left:
                    continue
                item = dict(r["_item"])
                item["thorough"] = r["_bound_requested"] + 1
                item.setdefault("cache-bits", 24)
                is_tsan = r["_flavour"] == "tsan"
                share = min(left - 20, max(30.0, left / max(1, len(cand))))
                rep, err = run_harness(tsan_builder if is_tsan else builders[r["_config"]], item, tier, share, os.path.join(outdir, "stretch"))
                if err:
                    engine_errors.append("[stretch] " + err)
                    continue
                rep["_item"] = item; rep["_config"] = r["_config"]; rep["_flavour"] = r["_flavour"]; rep["_tso"] = r.get("_tso", False); rep["_spur"] = r.get("_spur", False)
                stretched.append({"harness": rep["harness"], "args": rep["args"], "flavour": rep["_flavour"] + ("+tso" if rep["_tso"] else ""), "bound": rep["_bound_requested"],
                                  "complete": rep["exhaustive"], "executions": sum(b["executions"] for b in rep["bounds"]), "wall_s": rep["wall_s"]})
                if rep["exhaustive"] or rep["failures"]:
                    reports[reports.index(r)] = rep
                    if rep["exhaustive"] and not rep["failures"]:
                        nxt.append(rep)
            cand = nxt
    # ---- verdicts ----
    known, _fixed = load_known()
    viol_lines, known_lines = [], []
    nviol = 0
    repdir = os.path.join(VERIF, "replays", prop)
    extra_cov = {}

    def report(sig, payload, msg):
        """one violation signature: known finding or VIOLATION line + replay file"""
        nonlocal nviol
        kn = [k for k in known if k[0] == prop and sig_matches(k[1], sig)]
        if kn:
            known_lines.append("KNOWN-FINDING: property=%s %s [%s]" % (prop, kn[0][2], sig))
            return
        nviol += 1
        os.makedirs(repdir, exist_ok=True)
        path = os.path.join(repdir, sanitize(sig) + ".json")
        payload = dict(payload)
        payload.update({"property": prop, "signature": sig, "msg": msg, "how_to_replay": "python3 tools/check.py %s --replay %s" % (prop, path)})
        json.dump(payload, open(path, "w"), indent=1)
        viol_lines.append("VIOLATION property=%s replay=%s" % (prop, path))
        sys.stderr.write("  %s: %s\n" % (sig, msg[:600]))

    if "configs" in spec:
        # a configuration that does not build at all is a difference in behaviour (nothing can be compared)
        for c, errs in build_fail:
            report("build|%s" % c, {"kind": "build", "config": c}, "configuration %s does not compile: %s" % (c, errs[0][-1500:]))
        if spec.get("header_matrix"):
            ncomp, nhdr, bad = header_matrix(configs, base_config)
            extra_cov["header_matrix"] = {"headers": nhdr, "configurations": sorted(set(configs) | {base_config(c) for c in configs}), "compilations": ncomp,
                                         "oracle": "a header that compiles on its own in the baseline configuration of its language level compiles in every configuration",
                                         "failing": [[c, h] for c, h, _m, _cmd in bad]}
            for c, h, m, cmd in bad:
                report("hdr|%s:%s" % (c, h), {"kind": "header", "config": c, "header": h, "cmd": cmd}, "%s does not compile in %s but does in %s: %s" % (h, c, base_config(c), m[-800:]))
        # differential comparison of the recorded traces across configurations
        groups = {}
        for rep in reports:
            if rep["_item"].get("diff"):
                groups.setdefault((rep["harness"], tuple(rep["args"])), []).append(rep)
        ndiff = 0
        diff_rows = []
        for (hname, hargs), reps in sorted(groups.items()):
            ref = reps[0]
            row = {"harness": hname, "args": list(hargs), "digests": {r["_config"]: r["outcome_digest"] for r in reps},
                   "executions": {r["_config"]: sum(b["executions"] for b in r["bounds"]) for r in reps}}
            diff_rows.append(row)
            if not all(r["exhaustive"] for r in reps):
                continue        # cut by the deadline: nothing comparable is claimed (exhaustive=false in the evidence)
            for r in reps[1:]:
                ndiff += 1
                if r["outcome_digest"] != ref["outcome_digest"]:
                    d = diff_outcomes(ref, r, ref["_config"], r["_config"])
                    report("%s.%s|config-diff:%s!=%s" % (hname, "_".join(map(str, hargs)), ref["_config"], r["_config"]),
                           {"kind": "config_diff", "exe": r["_item"]["exe"], "harness": hname, "args": list(hargs), "configs": [ref["_config"], r["_config"]],
                            "bound": r["_bound_requested"], "first_differences": d[:20]},
                           "observable traces differ between %s and %s: %s" % (ref["_config"], r["_config"], "; ".join(d[:3])))
        extra_cov["config_diff"] = {"pairs_compared": ndiff, "rows": diff_rows}
    for rep in reports:
        hprops = rep["props"].split(",")
        for f in rep["failures"]:
            fprops = hprops if f["props"] in ("*", "") else f["props"].split(",")
            if "configs" in spec:
                fprops = fprops + [prop]    # any failure under a non-default configuration is a configuration difference
            if f["props"] == "!":
                engine_errors.append("harness %s: %s (%s)" % (rep["harness"], f["msg"], f["key"]))
                continue
            if prop not in fprops:
                continue
            sig = f["signature"]
            kn = [k for k in known if k[0] == prop and sig_matches(k[1], sig)]
            os.makedirs(repdir, exist_ok=True)
            path = os.path.join(repdir, ("known." if kn else "") + sanitize(sig + ("." + "_".join(map(str, rep["args"])) if rep["args"] else "") + ("." + rep["_config"] if rep["_config"] != "verif" else "") + (".tsan" if rep["_flavour"] == "tsan" else "") + (".tso" if rep.get("_tso") else "") + (".spur" if rep.get("_spur") else "")) + ".json")
            if kn:
                known_lines.append("KNOWN-FINDING: property=%s %s [%s; %d failing schedules, first at p<=%d; replay=%s]" % (prop, kn[0][2], sig, f["count"], f["bound"], path))
            else:
                nviol += 1
            json.dump({"property": prop, "exe": rep["_item"]["exe"], "harness": rep["harness"], "args": rep["args"],
                       "bound": f["bound"], "choices": f["choices"], "key": f["key"], "msg": f["msg"], "signature": sig,
                       "outcome": f["outcome"], "failing_schedules": f["count"], "detail": f["detail"],
                       "flavour": rep["_flavour"], "config": rep["_config"], "tso": bool(rep.get("_tso")), "spurious": bool(rep.get("_spur")),
                       "how_to_replay": "python3 tools/check.py %s --replay %s" % (prop, path)}, open(path, "w"), indent=1)
            if kn:
                continue
            viol_lines.append("VIOLATION property=%s replay=%s" % (prop, path))
            sys.stderr.write("  %s: %s\n" % (sig, f["msg"][:300]))
    # ---- evidence ----
    ev_states = sum(b["states"] for r in reports for b in r["bounds"][-1:])
    ev_trans = sum(b["transitions"] for r in reports for b in r["bounds"])
    ev_execs = sum(b["executions"] for r in reports for b in r["bounds"])
    distinct = sum(r["distinct_outcomes"] for r in reports)
    exhaustive = all(r["exhaustive"] for r in reports) and not engine_errors and len(reports) == n_expected
    per = []
    samples = []
    for r in reports:
        last = [b for b in r["bounds"] if b["complete"]]
        per.append({"harness": r["harness"] + ("[tsan]" if r["_flavour"] == "tsan" else "") + ("[tso]" if r.get("_tso") else "") + ("[spur]" if r.get("_spur") else ""), "args": r["args"], "config": r["_config"], "sequential": r["sequential"],
                    "bound_requested": r["_bound_requested"], "bound_completed": (last[-1]["bound"] if last else None),
                    "executions": sum(b["executions"] for b in r["bounds"]), "states": r["bounds"][-1]["states"] if r["bounds"] else 0,
                    "transitions": sum(b["transitions"] for b in r["bounds"]), "pruned_equivalent": sum(b["pruned"] for b in r["bounds"]),
                    "distinct_outcomes": r["distinct_outcomes"], "exhaustive_within_bound": r["exhaustive"], "wall_s": r["wall_s"],
                    "failure_signatures": [f["signature"] for f in r["failures"]]})
        for s in r["samples"][:2]:
            samples.append({"harness": r["harness"], "schedule_and_outcome": s})
        for o in list(r["outcomes"].items())[:3]:
            samples.append({"harness": r["harness"], "outcome": o[0], "executions_with_this_outcome": o[1]})
    wall = time.time() - t0
    ev = {
        "property_id": prop, "tier": tier, "seed": seed, "level": "model_checking",
        "coverage": {
            "states": int(ev_states), "transitions": int(ev_trans), "traces_validated_against_impl": int(ev_execs),
            "samples": samples[:40] or ["none"],
            "evaluations": int(ev_execs), "distinct_nontrivial": int(distinct),
            "rule": "every execution is one complete run of the real libunifex code under the controlled scheduler; schedules are "
                    "enumerated exhaustively up to the preemption bound (and all data choices); 'states' = distinct happens-before "
                    "prefixes (choice-tree nodes for sequential harnesses); distinct_nontrivial = number of distinct observed outcome "
                    "vectors (harness notes) summed over harnesses",
            "exhaustive": bool(exhaustive), "harnesses": per, "build_s": round(build_s, 1),
            "deadline_s": total_deadline, "engine_errors": engine_errors, "configurations": configs, "stretch_runs": stretched, **extra_cov,
        },
        "assumptions": spec.get("assumptions", []) + [
            "sequentially consistent interleavings of the hooked synchronisation operations (atomics, mutexes, condition variables, threads, clock)",
            "bounds as listed per harness; a harness with exhaustive_within_bound=false was cut by the deadline and claims only bound_completed",
            "g++ 12 -O1 with AddressSanitizer; library assertions enabled (no NDEBUG); harnesses marked [tsan] additionally run under clang 14 "
            "ThreadSanitizer (library and hook layer instrumented, harness monitors not), where a data race on any explored schedule is a violation",
            "harnesses marked [tso] are explored a second time in store-buffer mode: every non-seq_cst atomic store may stay invisible to the other threads "
            "until the storing thread's next barrier (read-modify-write, seq_cst store or fence, lock, blocking call), each such delay costing one unit of "
            "the same budget as a preemption; this is x86-TSO, a subset of what the C++ memory model allows",
            "harnesses marked [spur] are explored with spurious condition-variable wake-ups: any wait may return without a notification (one unit of the budget each)"],
        "wall_s": round(wall, 2), "violations": nviol,
    }
    if not a.no_evidence and not a.only:
        os.makedirs(os.path.join(VERIF, "evidence"), exist_ok=True)
        json.dump(ev, open(os.path.join(VERIF, "evidence", prop + ".json"), "w"), indent=1)
    for r in per:
        if len(configs) > 1:
            r = dict(r, harness=r["harness"] + "@" + r["config"])
        print("  %-28s args=%-10s p<=%s execs=%-8d states=%-8d outcomes=%-5d %s %.1fs %s" % (
            r["harness"], ",".join(map(str, r["args"])), r["bound_completed"], r["executions"], r["states"], r["distinct_outcomes"],
            "complete" if r["exhaustive_within_bound"] else "CUT", r["wall_s"], " ".join(r["failure_signatures"])))
    for l in known_lines:
        print(l)
    for l in viol_lines:
        print(l)
    print("%s %s: %d executions, %d states, %d harnesses, %.1fs (build %.1fs)%s" % (
        prop, tier, ev_execs, ev_states, len(reports), wall, build_s, "" if exhaustive else " [not exhaustive within bounds]"))
    if engine_errors:
        print("ENGINE-ERROR:\n" + "\n".join(engine_errors))
        sys.exit(1 if viol_lines else 2)
    sys.exit(1 if viol_lines else 0)


if __name__ == "__main__":
    main()
