#!/usr/bin/env python3
"""regenerates MANIFEST.json from tools/checks.py + tools/manifest_meta.py"""
import json, os, sys
HERE = os.path.dirname(os.path.abspath(__file__))
sys.path.insert(0, HERE)
import checks, manifest_meta as mm
VERIF = os.path.dirname(HERE)
props = [json.loads(l) for l in open(os.path.join(VERIF, "properties.jsonl"))]
out = {
    "version": 1,
    "setup_cmd": "python3 tools/setup.py",
    "hooks": {
        "guard": "UNIFEX_VERIF",
        "enable": "verification builds compile /repo's sources with -DUNIFEX_VERIF=1 -include /verif/engine/prelude.hpp (macro-renames std::atomic/mutex/condition_variable/thread/steady_clock to scheduler-controlled types) and link --wrap seams for syscalls; no guarded line exists in /repo",
        "baseline_off_cmd": "cmake --build /repo/_build -j16 -- -k 0; ctest --test-dir /repo/_build -j8 --timeout 900",
        "source_commits": mm.HOOK_COMMITS,
        "add_only": True,
    },
    "engines": [
        {"name": "vmc", "path": "engine/", "serves_properties": sorted(checks.CHECKS.keys()),
         "kind_free_text": "stateless model checker for the real C++ code: controlled scheduler over hooked std synchronisation primitives, preemption-bounded exhaustive DFS with happens-before-prefix caching, exhaustive data-choice enumeration, store-buffer (x86-TSO) and spurious-wake-up deviations under the same budget, forked workers with crash containment, AddressSanitizer / ThreadSanitizer as oracles, deterministic replay"},
    ],
    "checks": [],
    "not_applicable": [],
    "notes": mm.NOTES,
}
for p in props:
    pid = p["id"]
    if pid in checks.CHECKS:
        m = mm.META.get(pid, {})
        out["checks"].append({
            "property_id": pid,
            "quick_cmd": "python3 tools/check.py %s --tier quick" % pid,
            "thorough_cmd": "python3 tools/check.py %s --tier thorough" % pid,
            "evidence_file": "evidence/%s.json" % pid,
            "replay_cmd_template": "python3 tools/check.py %s --replay {path}" % pid,
            "engine": "vmc",
            "level_claimed": {"category": "model_checking", "text": m.get("text", "") + mm.ADDENDA.get(pid, ""), "design_ref": m.get("design_ref", "DESIGN.md §3 " + pid)},
            "level_note": m.get("note", mm.DEFAULT_NOTE),
            "technique": m.get("technique", "stateless model checking of the implementation: exhaustive preemption-bounded schedule enumeration under a controlled scheduler"),
        })
    else:
        out["not_applicable"].append({"property_id": pid, "reason": mm.NOT_YET.get(pid, "check not built yet in this round; no claim is made")})
json.dump(out, open(os.path.join(VERIF, "MANIFEST.json"), "w"), indent=1)
print("MANIFEST.json: %d checks, %d not claimed" % (len(out["checks"]), len(out["not_applicable"])))
