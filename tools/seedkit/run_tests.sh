#!/bin/bash
# run_tests.sh <worktree> [jobs]
# Configures <worktree>/_build exactly like the pinned baseline build (Ninja, RelWithDebInfo, -Wno-error, examples and
# tests on, system gtest), builds it and runs the pinned ctest suite.  Prints "BASELINE OK <n>/<n> ctest tests" when every
# ctest test passes and at least the baseline's 107 tests ran, otherwise "BASELINE FAIL ..." with the failing names.
set -u
WT="$1"; J="${2:-8}"
B="$WT/_build"
if [ ! -f "$B/build.ninja" ]; then
  cmake -G Ninja -S "$WT" -B "$B" -DCMAKE_BUILD_TYPE=RelWithDebInfo -DCMAKE_CXX_FLAGS=-Wno-error -DBUILD_TESTING=ON \
        -DUNIFEX_BUILD_EXAMPLES=ON -DUNIFEX_USE_SYSTEM_GTEST=ON > "$B.configure.log" 2>&1 || { echo "BASELINE FAIL configure (see $B.configure.log)"; exit 2; }
fi
cmake --build "$B" -j"$J" > "$B.build.log" 2>&1 || { echo "BASELINE FAIL build (see $B.build.log)"; grep -m5 -E "error|FAILED" "$B.build.log"; exit 2; }
ctest --test-dir "$B" -j8 --timeout 900 > "$B.ctest.log" 2>&1
rc=$?
line=$(grep -E "tests passed|tests failed" "$B.ctest.log" | tail -1)
total=$(echo "$line" | sed -E 's/.*out of ([0-9]+).*/\1/')
# (a fresh configure that finds liburing registers two more io_uring example tests than the pinned build: 109 instead of 107)
if [ $rc -eq 0 ] && [ "$total" -ge 107 ]; then echo "BASELINE OK $total/$total ctest tests"; exit 0; fi
echo "BASELINE FAIL: $line"; grep -E "\*\*\*Failed|\*\*\*Timeout|\(Failed\)|\(Timeout\)|SEGFAULT|Subprocess aborted" "$B.ctest.log" | head -20
exit 1
