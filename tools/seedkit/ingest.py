#!/usr/bin/env python3
"""ingest.py <seed-id> <property> <change> <needs>  — copies /tmp/seeds/<seed-id>/seed_out (patch, demonstration, README,
confirmation.txt written by confirm.sh) to /verif/seeded/<seed-id>/ and writes meta.json."""
import json, os, shutil, sys
sid, prop, change, needs = sys.argv[1:5]
src = '/tmp/seeds/%s/seed_out' % sid
dst = os.path.join(os.path.dirname(os.path.dirname(os.path.dirname(os.path.abspath(__file__)))), 'seeded', sid)
os.makedirs(dst, exist_ok=True)
for f in os.listdir(src):
    if f.startswith('.') or os.path.isdir(os.path.join(src, f)):
        continue
    shutil.copy(os.path.join(src, f), os.path.join(dst, f))
cp = os.path.join(dst, 'confirmation.txt')
conf = open(cp).read().strip().splitlines()[-1] if os.path.exists(cp) else 'MISSING'
json.dump({"property": prop, "change": change, "needs": needs, "detect_with": [prop],
           "source": "independent sub-agent, third round (given only the property text and its own worktree; asked for a different file/mechanism than earlier seeds)",
           "confirmed": "tools/seedkit/confirm.sh on the agent's scratch worktree: worktree diff == patch.diff, whole suite builds and passes with the change (run_tests.sh), demonstration exits non-zero with the change and 0 without it (confirmation.txt): " + conf},
          open(os.path.join(dst, 'meta.json'), 'w'), indent=1)
print(sid, conf[:80])
