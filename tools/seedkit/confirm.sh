#!/bin/bash
# confirm.sh <worktree-with-seed_out>  — independent confirmation of a seeded change, run by the framework's author:
#   1. the library diff of the worktree is exactly seed_out/patch.diff and touches only include/ and source/
#   2. with the change: whole suite builds and passes (run_tests.sh)
#   3. with the change: the demonstration fails (non-zero exit)
#   4. without the change (diff saved, tree reverted): library rebuilt, the demonstration passes (exit 0)
# Writes seed_out/confirmation.txt.
set -u
WT="$1"; OUT="$WT/seed_out/confirmation.txt"; HERE="$(cd "$(dirname "$0")" && pwd)"
{
echo "== confirm $(date -u +%FT%TZ) worktree=$WT base=$(git -C "$WT" rev-parse --short HEAD)"
git -C "$WT" diff -- include source > /tmp/confirm.$$.diff
if ! diff -q <(grep -v '^index ' /tmp/confirm.$$.diff) <(grep -v '^index ' "$WT/seed_out/patch.diff") >/dev/null; then echo "NOTE: worktree diff differs from patch.diff; re-applying patch.diff to a clean tree"; git -C "$WT" checkout -- include source; git -C "$WT" apply "$WT/seed_out/patch.diff" || { echo "CONFIRM FAIL: patch does not apply"; exit 1; }; fi
rm -f /tmp/confirm.$$.diff
echo "files changed: $(git -C "$WT" diff --stat -- include source | tail -1)"
other=$(git -C "$WT" status --porcelain --untracked-files=no | grep -v -E '^ M (include|source)/' | wc -l)
[ "$other" = "0" ] || { echo "CONFIRM FAIL: tracked files outside include/ and source/ were modified"; git -C "$WT" status --porcelain --untracked-files=no; exit 1; }
echo "-- suite with the change"
r=$("$HERE/run_tests.sh" "$WT" 8); echo "$r"
case "$r" in "BASELINE OK"*) ;; *) echo "CONFIRM FAIL: suite does not pass with the change"; exit 1;; esac
echo "-- demo with the change"
( cd "$WT/seed_out" && timeout 900 bash ./build_and_run.sh "$WT" ) > /tmp/confirm.$$.with 2>&1; rc1=$?
tail -8 /tmp/confirm.$$.with; echo "exit=$rc1"
echo "-- demo without the change"
# (git stash is shared between worktrees of one repository: use a patch file instead)
git -C "$WT" diff -- include source > "$WT/seed_out/.applied.diff"; git -C "$WT" checkout -- include source
cmake --build "$WT/_build" --target unifex -j8 > /dev/null 2>&1
( cd "$WT/seed_out" && timeout 900 bash ./build_and_run.sh "$WT" ) > /tmp/confirm.$$.without 2>&1; rc0=$?
tail -5 /tmp/confirm.$$.without; echo "exit=$rc0"
git -C "$WT" apply "$WT/seed_out/.applied.diff" && rm -f "$WT/seed_out/.applied.diff"
cmake --build "$WT/_build" --target unifex -j8 > /dev/null 2>&1
rm -f /tmp/confirm.$$.with /tmp/confirm.$$.without
if [ $rc1 -ne 0 ] && [ $rc0 -eq 0 ]; then echo "CONFIRMED: suite passes with the change; demo fails with it (exit $rc1) and passes without it"; else echo "CONFIRM FAIL: demo exit with=$rc1 without=$rc0"; exit 1; fi
} 2>&1 | tee "$OUT"
